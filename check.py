#!/venv/bin/python
"""Entry point of the verification machinery: /verif/check.py <ID|setup|selftest-...> [--tier quick|thorough] [--replay file]

exit 0  property held on everything explored (KNOWN-FINDING lines allowed)
exit 1  + "VIOLATION property=<id> replay=<path>"
exit 2  HARNESS-ERROR (timeout, harness compile error, non-reproducing replay) - never reported as "held"
"""
import argparse
import os
import sys

sys.path.insert(0, os.path.dirname(os.path.abspath(__file__)))
sys.dont_write_bytecode = True

from sim import engine  # noqa: E402


def main():
    ap = argparse.ArgumentParser()
    ap.add_argument('what')
    ap.add_argument('--tier', default=None)
    ap.add_argument('--replay', default=None)
    ap.add_argument('--models', type=int, default=None)
    ap.add_argument('--runs', type=int, default=None)
    args = ap.parse_args()
    engine.reexec_with_fixed_hashseed()
    from sim import checks
    try:
        return checks.dispatch(args)
    except Exception as exc:  # pylint: disable=broad-except
        import traceback
        print(f'HARNESS-ERROR: {type(exc).__name__}: {exc}')
        traceback.print_exc()
        return engine.EXIT_HARNESS


if __name__ == '__main__':
    sys.exit(main())
