"""Per-property profiles for the World A driver: what to generate, how to judge, what to count."""
from . import cfggen, modelgen, oracles, tapes
from .rng import Rng


def _gen_model_any(rng: Rng):
    spec = modelgen.gen_spec(rng.fork('spec'))
    # homonym types only matter where forwarding lambdas spell them: mostly configure such models all-MTS
    cfg = cfggen.gen_cfg(rng.fork('cfg'), spec, force_all_mts=bool(spec.get('homonyms')) and rng.chance(70))
    return spec, cfg


def _gen_runs_routing(rng: Rng, mb, n):
    runs = [tapes.gen_routing_run(rng.fork('sweep'), mb, 'sweep', sweep=True)]
    for i in range(n):
        runs.append(tapes.gen_routing_run(rng.fork('run', i), mb, f'r{i}'))
    return runs


def _pairs_routing(mb):
    oc, ic, ih, oh = tapes.classify_events(mb.ports, mb.events)
    pairs = {e['idx'] for e in oc}
    if ih:
        pairs |= {e['idx'] for e in ic}
    if mb.mc:
        pairs -= {mb.mc['release']}
    return pairs


def _collect_env(run, res, stats):
    """Environment variations (tapes.vary_env) that ACTUALLY took place in this run."""
    faults = stats.setdefault('faults', {})
    probes = stats.setdefault('probes', {})
    if run.get('refetch') and not run.get('connect'):
        faults['port_fetched_through_the_accessor_at_every_call'] = faults.get('port_fetched_through_the_accessor_at_every_call', 0) + 1
    if int(res.end.get('lock_timeouts', 0)) > 0:
        faults['timed_lock_ran_into_its_deadline'] = faults.get('timed_lock_ran_into_its_deadline', 0) + int(res.end.get('lock_timeouts', 0))
    if run.get('lazycomp'):
        faults['component_does_not_look_up_the_runtime'] = faults.get('component_does_not_look_up_the_runtime', 0) + 1
    for r in res.records:
        k = r['kind']
        if k == 'client_ids_early':
            probes['client_identifiers_queried_during_registration'] = probes.get('client_identifiers_queried_during_registration', 0) + 1
        elif k == 'sibling_setup' and r.get('result') == 'ok':
            faults['second_shell_instance_in_the_process'] = faults.get('second_shell_instance_in_the_process', 0) + 1
            if r.get('holder') not in (None, '-1'):
                probes['sibling_instance_holds_a_claim_of_its_own'] = probes.get('sibling_instance_holds_a_claim_of_its_own', 0) + 1
        elif k == 'rebind':
            faults['client_replaces_its_out-event_handlers'] = faults.get('client_replaces_its_out-event_handlers', 0) + 1
        elif k == 'early_use_done':
            faults['calls_before_FinalConstruct'] = faults.get('calls_before_FinalConstruct', 0) + 1
        elif k == 'handler_asked_identifiers':
            probes['out-event_handler_re-entered_the_shell'] = probes.get('out-event_handler_re-entered_the_shell', 0) + 1
        elif k == 'prototype_locator_destroyed':
            faults['prototype_locator_destroyed_after_construction'] = faults.get('prototype_locator_destroyed_after_construction', 0) + 1
        elif k == 'probe_register_again':
            probes['refused_registration_attempted_twice'] = probes.get('refused_registration_attempted_twice', 0) + 1
        elif k == 'companion_ctor':
            faults['second_generated_shell_type_in_the_program'] = faults.get('second_generated_shell_type_in_the_program', 0) + 1
        elif k == 'sibling_check':
            probes['sibling_instance_inspected_after_the_run'] = probes.get('sibling_instance_inspected_after_the_run', 0) + 1


def _collect_routing(mb, run, res, stats, covered):
    faults = stats.setdefault('faults', {})
    probes = stats.setdefault('probes', {})
    _collect_env(run, res, stats)
    if run['stall_len'] > 0 and int(res.end.get('steps', 0)) > run['stall_from']:
        faults['dispatcher_stall'] = faults.get('dispatcher_stall', 0) + 1
    if run['scrub']:
        faults['caller_stack_scrub_after_call'] = faults.get('caller_stack_scrub_after_call', 0) + sum(
            1 for r in res.records if r['kind'] == 'ret' and r['posts'] != '0')
    pending = 0
    max_pending = 0
    ret_seq = {}
    late = 0
    for r in res.records:
        k = r['kind']
        if k == 'call':
            covered.add(int(r['ev']))
        elif k == 'post':
            pending += 1
            max_pending = max(max_pending, pending)
        elif k == 'exec_end':
            pending -= 1
    if run.get('connect'):
        probes['user_ports_bound_via_ConnectPorts'] = probes.get('user_ports_bound_via_ConnectPorts', 0) + 1
    if max_pending >= 2:
        probes['two_or_more_closures_in_flight'] = probes.get('two_or_more_closures_in_flight', 0) + 1
    if max_pending >= 4:
        probes['four_or_more_closures_in_flight'] = probes.get('four_or_more_closures_in_flight', 0) + 1
    # posted closure executed after the posting call had returned (argument lifetime window)
    open_posted = {}
    for r in res.records:
        if r['kind'] == 'ret' and r['posts'] != '0' and r['waits'] == '0':
            open_posted[r['ev']] = open_posted.get(r['ev'], 0) + 1
        elif r['kind'] == 'hdl' and r['side'] == 'i' and open_posted.get(r['ev'], 0) > 0 and r['disp'] != '-1':
            open_posted[r['ev']] -= 1
            late += 1
    if late:
        probes['posted_closure_ran_after_caller_returned'] = probes.get('posted_closure_ran_after_caller_returned', 0) + late
    if int(res.end.get('contended', 0)) > 0:
        probes['lock_contended'] = probes.get('lock_contended', 0) + 1


def _site_default(mb, run, res, v):
    return '*'


def _no_static(mb, name, ok):
    return []


def _gen_model_c09(rng: Rng):
    spec = modelgen.gen_spec(rng.fork('spec'))
    cfg = cfggen.gen_cfg(rng.fork('cfg'), spec, origin=rng.choice(['CREATE', 'IMPORT']))
    return spec, cfg


def _collect_c09(mb, run, res, stats, covered):
    faults = stats.setdefault('faults', {})
    probes = stats.setdefault('probes', {})
    _collect_env(run, res, stats)
    if run.get('kind') == 'construction':
        loc = run['loc']
        origin = mb.cfgspec['origin']
        if origin == 'CREATE' and loc['pump']:
            faults['create:user_locator_already_has_pump'] = faults.get('create:user_locator_already_has_pump', 0) + 1
        if origin == 'CREATE' and loc['runtime']:
            faults['create:user_locator_already_has_runtime'] = faults.get('create:user_locator_already_has_runtime', 0) + 1
        if origin == 'IMPORT' and not loc['pump']:
            faults['import:pump_missing'] = faults.get('import:pump_missing', 0) + 1
        if origin == 'IMPORT' and not loc['runtime']:
            faults['import:runtime_missing'] = faults.get('import:runtime_missing', 0) + 1
        if any(r['kind'] == 'shell_ctor' and r['result'] == 'throw' for r in res.records):
            probes['constructor_threw'] = probes.get('constructor_threw', 0) + 1
        else:
            probes['constructor_succeeded'] = probes.get('constructor_succeeded', 0) + 1
    else:
        probes['dispatched_closures_identity_checked'] = probes.get('dispatched_closures_identity_checked', 0) + sum(
            1 for r in res.records if r['kind'] == 'exec')
    covered.add(run['id'] if run.get('kind') == 'construction' else 'workload')


def _pairs_c09(mb):
    return {f'loc{p}{r}{s}' for p in (0, 1) for r in (0, 1) for s in (0, 1, 2)} | {'workload'}


def _collect_c10(mb, run, res, stats, covered):
    faults = stats.setdefault('faults', {})
    probes = stats.setdefault('probes', {})
    _collect_env(run, res, stats)
    if run['unbinds']:
        side, ev, cl = run['unbinds'][0]
        e = mb.events[ev]
        p = mb.ports[e['port']]
        key = f"unbound:{p['sem']}/{p['dir']}/{e['dir']}-event/{'user' if side == 0 else 'component'}"
        faults[key] = faults.get(key, 0) + 1
        covered.add((side, ev, cl))
    elif run.get('reentryfc'):
        faults['log_sink_calls_FinalConstruct_during_set-up'] = faults.get('log_sink_calls_FinalConstruct_during_set-up', 0) + 1
    elif run.get('reentry'):
        faults['log_sink_re-enters_the_shell_and_registers_a_client'] = faults.get('log_sink_re-enters_the_shell_and_registers_a_client', 0) + 1
    else:
        probes['all_bound_world'] = probes.get('all_bound_world', 0) + 1
    for r in res.records:
        if r['kind'] == 'reentrant_fc':
            k = f"FinalConstruct_called_by_log_sink:{r['result']}"
            probes[k] = probes.get(k, 0) + 1
        if r['kind'] == 'monitor_registered':
            k = f"client_registered_by_log_sink:{r['result']}:{ {'0': 'before', '1': 'during', '2': 'after', '3': 'after-failed'}[r['fcstate']] }-FinalConstruct"
            probes[k] = probes.get(k, 0) + 1
        if r['kind'] == 'fc':
            k = 'final_construct_threw' if r['result'] == 'throw' else 'final_construct_returned'
            probes[k] = probes.get(k, 0) + 1
        if r['kind'] == 'probe_register_after_fc':
            probes['late_registration_probed'] = probes.get('late_registration_probed', 0) + 1


def _pairs_c10(mb):
    # the number of registered clients is drawn per model; pairs are reported from the tapes actually run
    return set()


def _site_c10(mb, run, res, v):
    if run and run.get('unbinds'):
        side, ev, cl = run['unbinds'][0]
        e = mb.events[ev]
        p = mb.ports[e['port']]
        return f"{p['sem']}/{p['dir']}/{e['dir']}/{'user' if side == 0 else 'component'}"
    return '*'


def _gen_model_mc(rng: Rng):
    spec = modelgen.gen_spec(rng.fork('spec'), want_mc=True, mc_triggers=True)
    cfg = cfggen.gen_cfg(rng.fork('cfg'), spec, use_mc=True)
    return spec, cfg


def _collect_c04(mb, run, res, stats, covered):
    faults = stats.setdefault('faults', {})
    probes = stats.setdefault('probes', {})
    _collect_env(run, res, stats)
    mc = mb.mc
    h = oracles.History(mb, run, res)
    holder = None
    key = 'faulty_histories' if run.get('faulty') else 'fault_free_histories'
    probes[key] = probes.get(key, 0) + 1
    for c in sorted(h.calls.values(), key=lambda c: c['seq']):
        if c['side'] == 'o' and c['ret']:
            if c['ev'] == mc['claim']:
                if c['ret']['reply'] == mc['grant']:
                    holder = c['cl']
                    probes['claims_granted'] = probes.get('claims_granted', 0) + 1
                else:
                    faults['claim_denied'] = faults.get('claim_denied', 0) + 1
            elif c['ev'] == mc['release']:
                if holder is not None and c['cl'] != holder:
                    faults['release_by_non_holder_while_claimed'] = faults.get('release_by_non_holder_while_claimed', 0) + 1
                elif holder is None:
                    faults['release_without_claim'] = faults.get('release_without_claim', 0) + 1
                else:
                    holder = None
        if c['side'] == 'i' and c['ev'] in mc['out_events']:
            dels = oracles.mc_deliveries(h, c)
            k = 'out_event_delivered_to_holder' if dels else 'out_event_raised_without_delivery'
            probes[k] = probes.get(k, 0) + 1
            covered.add(c['ev'])
    for r in res.records:
        if r['kind'] == 'log' and 'overruling' in r.get('msg', ''):
            probes['select_overrules'] = probes.get('select_overrules', 0) + 1
        if r['kind'] == 'log' and 'already_released' in r.get('msg', ''):
            probes['deselect_when_already_released'] = probes.get('deselect_when_already_released', 0) + 1


def _gen_model_c11(rng: Rng):
    spec = modelgen.gen_spec(rng.fork('spec'), want_mc=True, mc_triggers=True)
    cfg = cfggen.gen_cfg(rng.fork('cfg'), spec, use_mc=True, force_all_mts=True)
    return spec, cfg


def _collect_c11(mb, run, res, stats, covered):
    faults = stats.setdefault('faults', {})
    probes = stats.setdefault('probes', {})
    _collect_env(run, res, stats)
    h = oracles.History(mb, run, res)
    mc = mb.mc
    wins = oracles.c11_windows(h)
    if wins:
        probes['windows_opened'] = probes.get('windows_opened', 0) + len(wins)
    for c in h.calls.values():
        if c['side'] == 'i' and c['ev'] in mc['out_events']:
            if any(s < c['seq'] < e for _, s, e in wins):
                probes['raise_in_open_window'] = probes.get('raise_in_open_window', 0) + 1
            else:
                probes['raise_outside_windows'] = probes.get('raise_outside_windows', 0) + 1
        if c['side'] == 'o' and c['ev'] == mc['claim'] and c['ret'] and c['ret']['reply'] != mc['grant']:
            faults['claim_denied'] = faults.get('claim_denied', 0) + 1
    for r in res.records:
        if r['kind'] == 'log':
            m = r.get('msg', '')
            if 'overruling' in m:
                probes['select_overrules'] = probes.get('select_overrules', 0) + 1
            if 'does_not_hold_the_claim' in m:
                probes['deselect_by_non_holder'] = probes.get('deselect_by_non_holder', 0) + 1
            if 'already_released' in m:
                probes['deselect_when_nobody_selected'] = probes.get('deselect_when_nobody_selected', 0) + 1
    if int(res.end.get('contended', 0)) > 0:
        probes['lock_contended'] = probes.get('lock_contended', 0) + int(res.end.get('contended', 0))
    for f in run.get('fault_plan', []):
        faults[f] = faults.get(f, 0) + 1
    if run['stall_len'] > 0 and int(res.end.get('steps', 0)) > run['stall_from']:
        faults['dispatcher_stall'] = faults.get('dispatcher_stall', 0) + 1


PROFILES = {
    'C01': {
        'flavor': 'asan', 'model_stream': 'routing',
        'gen_model': _gen_model_any, 'gen_runs': _gen_runs_routing,
        'judge': oracles.judge_c01, 'judge_static': _no_static,
        'collect': _collect_routing, 'nontrivial': lambda mb, run, res: __import__('sim.checkA', fromlist=['x']).cross_task(res),
        'site': _site_default, 'pairs': _pairs_routing,
    },
    'C09': {
        'flavor': 'asan', 'model_stream': 'routing',
        'gen_model': _gen_model_any, 'gen_runs': lambda rng, mb, n: tapes.gen_c09_runs(rng, mb, n),
        'judge': oracles.judge_c09, 'judge_static': oracles.judge_static_c09,
        'collect': _collect_c09, 'nontrivial': lambda mb, run, res: True,
        'site': _site_default, 'pairs': _pairs_c09,
    },
    'C10': {
        'flavor': 'asan', 'model_stream': 'routing',
        'gen_model': _gen_model_any, 'gen_runs': lambda rng, mb, n: tapes.gen_c10_runs(rng, mb, n),
        'judge': oracles.judge_c10, 'judge_static': _no_static,
        'collect': _collect_c10, 'nontrivial': lambda mb, run, res: bool(run['unbinds']),
        'site': _site_c10, 'pairs': _pairs_c10,
    },
    'C04': {
        'flavor': 'asan', 'model_stream': 'multiclient',
        'gen_model': _gen_model_mc, 'gen_runs': lambda rng, mb, n: tapes.gen_c04_runs(rng, mb, n),
        'judge': oracles.judge_c04, 'judge_static': _no_static,
        'collect': _collect_c04,
        'nontrivial': lambda mb, run, res: any(r['kind'] == 'hdl' and r['side'] == 'o' and r['cl'] != '-1' for r in res.records),
        'site': lambda mb, run, res, v: oracles.c04_site(mb, run, res), 'pairs': lambda mb: set(mb.mc['out_events']),
    },
    'C11': {
        'flavor': 'tsan', 'model_stream': 'multiclient-mts',
        'gen_model': _gen_model_c11, 'gen_runs': lambda rng, mb, n: tapes.gen_c11_runs(rng, mb, n),
        'judge': oracles.judge_c11, 'judge_static': _no_static,
        'collect': _collect_c11,
        'nontrivial': lambda mb, run, res: sum(1 for r in res.records if r['kind'] == 'window_open') >= 2,
        'site': _site_default, 'pairs': lambda mb: set(),
    },
    'C02': {
        'flavor': 'asan', 'model_stream': 'routing',
        'gen_model': _gen_model_any, 'gen_runs': _gen_runs_routing,
        'judge': oracles.judge_c02, 'judge_static': oracles.judge_static_c02,
        'collect': _collect_routing, 'nontrivial': lambda mb, run, res: __import__('sim.checkA', fromlist=['x']).cross_task(res),
        'site': _site_default, 'pairs': _pairs_routing,
    },
}
