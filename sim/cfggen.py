"""Configuration specs (plain, JSON-able data) and their translation into dznpy `Configuration` objects.

A selection is 'ALL' | 'NONE' | 'REMAINING' | [names...]; a list records the *insertion order* of the
set that is built from it (set iteration order depends on insertion order and on the hash seed - C08).
"""
from .rng import Rng

COPYRIGHTS = [
    'Copyright (c) Example Corp',
    'Copyright Example Line 1\nCopyright Example Line 2',
    'Line A\n\n  indented line\nLine C',
    '',
    'Unusual separators\rsecond\x0bthird\x0cfourth\x1cfifth\x85sixth seventh',
    '*/ int injected = 1; /*\n#define X 1',
]
CREATORS = [None, 'created by the simulation harness', 'tool: sim\nversion: 1\n\nrun: x', '']
SUFFIXES = ['AdvShell', 'Shell', 'ImplComp', '_adv', 'X2', 'Wrapped']


def ports_of(spec):
    comp = spec['component']
    prov = [p['name'] for p in comp['ports'] if p['dir'] == 'provides']
    req = [p['name'] for p in comp['ports'] if p['dir'] == 'requires' and not p['injected']]
    inj = [p['name'] for p in comp['ports'] if p['dir'] == 'requires' and p['injected']]
    return prov, req, inj


def _side_cfg(rng: Rng, names, extra_ok, allow_mixed, force=None, explicit_bias=False):
    """Return ({'sts': sel, 'mts': sel}, {port: 'STS'|'MTS'}) valid for the given port names.
    extra_ok: names that may additionally be listed explicitly (injected ports) without effect."""
    names = list(names)
    style = rng.weighted([(3, 'all'), (2, 'remaining'), (3, 'explicit'), (2, 'explicit+remaining')])
    if explicit_bias:
        style = rng.weighted([(1, 'all'), (1, 'remaining'), (6, 'explicit'), (4, 'explicit+remaining')])
    if not allow_mixed:
        sem = force or rng.choice(['STS', 'MTS'])
        other = 'MTS' if sem == 'STS' else 'STS'
        if style in ('explicit', 'explicit+remaining') and names:
            sel = rng.shuffle(names)
        elif style == 'remaining':
            sel = 'REMAINING'
        else:
            sel = 'ALL'
        cfg = {sem.lower(): sel, other.lower(): 'NONE'}
        return cfg, {n: sem for n in names}
    # requires side: any mix
    if style == 'all' or not names:
        sem = force or rng.choice(['STS', 'MTS'])
        other = 'MTS' if sem == 'STS' else 'STS'
        sel = 'ALL' if (style == 'all' or rng.chance(50)) else 'REMAINING'
        return {sem.lower(): sel, other.lower(): 'NONE'}, {n: sem for n in names}
    if style == 'remaining':
        sem = force or rng.choice(['STS', 'MTS'])
        other = 'MTS' if sem == 'STS' else 'STS'
        return {sem.lower(): 'REMAINING', other.lower(): 'NONE'}, {n: sem for n in names}
    assign = {n: rng.choice(['STS', 'MTS']) for n in names}
    if force:
        assign = {n: force for n in names}
    else:
        # ports whose names are equal up to letter case get different semantics more often than chance would have it
        twins = Rng(rng.state, 'casefold-twins')
        for a in names:
            for b in names:
                if a < b and a.casefold() == b.casefold() and twins.chance(70):
                    assign[b] = 'MTS' if assign[a] == 'STS' else 'STS'
    sts = [n for n in names if assign[n] == 'STS']
    mts = [n for n in names if assign[n] == 'MTS']
    if style == 'explicit':
        # every port named explicitly (possibly plus injected names, which must be accepted and ignored)
        extra = [e for e in extra_ok if rng.chance(40)]
        if extra:
            if rng.chance(50):
                sts = sts + extra
            else:
                mts = mts + extra
        cfg = {'sts': rng.shuffle(sts) if sts else 'NONE', 'mts': rng.shuffle(mts) if mts else 'NONE'}
        if cfg['sts'] == 'NONE' and cfg['mts'] == 'NONE':
            cfg['sts'] = 'ALL'
        return cfg, assign
    # explicit + remaining: the larger or a random side becomes the wildcard
    wild = rng.choice(['STS', 'MTS'])
    if wild == 'STS':
        cfg = {'sts': 'REMAINING', 'mts': rng.shuffle(mts) if mts else 'NONE'}
    else:
        cfg = {'mts': 'REMAINING', 'sts': rng.shuffle(sts) if sts else 'NONE'}
    return cfg, assign


def gen_cfg(rng: Rng, spec, use_mc=None, origin=None, force_all_mts=False, explicit_bias=False) -> dict:
    """A valid configuration spec for the model, with the expected per-port semantics under key 'expect'."""
    prov, req, inj = ports_of(spec)
    mc = spec['mc'] if (spec['mc'] and (use_mc if use_mc is not None else rng.chance(70))) else None
    if mc or force_all_mts:
        pcfg, passign = _side_cfg(rng, prov, [], False, force='MTS', explicit_bias=explicit_bias)
    else:
        pcfg, passign = _side_cfg(rng, prov, [], False, explicit_bias=explicit_bias)
    if force_all_mts:
        rcfg, rassign = _side_cfg(rng, req, inj, True, force='MTS', explicit_bias=explicit_bias)
    else:
        rcfg, rassign = _side_cfg(rng, req, inj, True, explicit_bias=explicit_bias)
    expect = {}
    expect.update(passign)
    expect.update(rassign)
    if mc:
        expect[mc['port']] = 'MC'
    comp = spec['component']
    prefix = rng.weighted([(3, None), (1, ['Other']), (1, ['Other', 'Project']), (1, ['a', 'B', 'c9']), (1, ['Other_Project']), (1, ['Acme', 'Dzn'])])
    cfg = {
        'dezyne_filename': rng.choice(['', 'models/', '/abs/path/to/', '../rel/']) + spec['basename'] + rng.choice(['.dzn', '.dzn', '.json', '']),
        'suffix': rng.choice(SUFFIXES),
        'encapsulee': comp['ns'] + [comp['name']],
        'provides': pcfg, 'requires': rcfg,
        'multiclient': None if not mc else {'port': mc['port'], 'claim': mc['claim'], 'grant': [mc['grant']],
                                            'release': mc['release']},
        'origin': origin or rng.choice(['CREATE', 'IMPORT']),
        'copyright': rng.choice(COPYRIGHTS), 'creator_info': rng.choice(CREATORS),
        'prefix': prefix, 'verbose': False, 'companion': Rng(rng.state, 'companion').chance(30),
        'expect': expect,
    }
    return cfg


def shell_basename(cfgspec) -> str:
    import os
    return os.path.splitext(os.path.basename(cfgspec['dezyne_filename']))[0]


def _sel(adv, value):
    if value == 'ALL':
        return adv.PortSelect(adv.PortWildcard.ALL)
    if value == 'NONE':
        return adv.PortSelect(adv.PortWildcard.NONE)
    if value == 'REMAINING':
        return adv.PortSelect(adv.PortWildcard.REMAINING)
    s = set()
    for n in value:   # insertion order is part of the spec
        s.add(n)
    return adv.PortSelect(s)


def build_configuration(cfgspec, fc):
    """Translate a configuration spec into a dznpy Configuration (imports dznpy lazily: callers decide
    which dznpy is on sys.path)."""
    import dznpy.adv_shell as adv
    from dznpy.adv_shell.common import FacilitiesOrigin
    from dznpy.scoping import NamespaceIds
    mc = None
    if cfgspec['multiclient']:
        m = cfgspec['multiclient']
        mc = adv.MultiClientPortCfg(port_name=m['port'], claim_event_name=m['claim'],
                                    claim_granting_reply_value=NamespaceIds(list(m['grant'])),
                                    release_event_name=m['release'])
    ports_cfg = adv.PortsCfg(
        provides=adv.PortsSemanticsCfg(sts=_sel(adv, cfgspec['provides']['sts']), mts=_sel(adv, cfgspec['provides']['mts'])),
        requires=adv.PortsSemanticsCfg(sts=_sel(adv, cfgspec['requires']['sts']), mts=_sel(adv, cfgspec['requires']['mts'])),
        multiclient=mc)
    return adv.Configuration(
        dezyne_filename=cfgspec['dezyne_filename'], ast_fc=fc,
        output_basename_suffix=cfgspec['suffix'],
        fqn_encapsulee_name=NamespaceIds(list(cfgspec['encapsulee'])),
        ports_cfg=ports_cfg,
        facilities_origin=FacilitiesOrigin[cfgspec['origin']],
        copyright=cfgspec['copyright'],
        support_files_ns_prefix=None if cfgspec['prefix'] is None else NamespaceIds(list(cfgspec['prefix'])),
        creator_info=cfgspec['creator_info'], verbose=cfgspec['verbose'])
