"""World B: histories of operations on the REAL Python library inside one interpreter, with a fake file system,
I/O faults and crash injection; every result is compared with a fresh-interpreter reference.

Seams (none needs a hook in /repo):
  * file I/O     - dznpy.json_ast looks `open` up as a module global; SimFS.open is installed there
  * crash point  - sys.settrace counts line events inside /repo/src/dznpy and raises SimInterrupt at the k-th
  * reference    - one fresh interpreter per distinct (document[, configuration spec]), see child_build.py
"""
import errno
import io
import json
import os
import subprocess
import sys

from . import dznbuild
from .rng import Rng

CHILD = os.path.join(os.path.dirname(os.path.abspath(__file__)), 'child_build.py')


class SimInterrupt(BaseException):
    """Simulated crash of the running operation (not an Exception: library code must not be able to swallow it)."""


class SimFS:
    """In-memory path -> bytes map with fault injection on open/read."""

    def __init__(self):
        self.files = {}
        self.next_fault = None   # None | 'ENOENT' | 'EACCES' | 'EIO' | ('short', n)
        self.stats = {}

    def open(self, path, mode='r', *args, **kwargs):
        fault, self.next_fault = self.next_fault, None
        if fault == 'ENOENT' or path not in self.files:
            self._count('ENOENT')
            raise FileNotFoundError(errno.ENOENT, 'No such file or directory', path)
        if fault == 'EACCES':
            self._count('EACCES')
            raise PermissionError(errno.EACCES, 'Permission denied', path)
        data = self.files[path]
        if fault == 'EIO':
            self._count('EIO')
            return _FailingReader(path)
        if isinstance(fault, (list, tuple)) and fault[0] == 'short':
            self._count('short_read')
            data = data[:max(0, min(len(data) - 1, fault[1]))]
        if 'b' in mode:
            return io.BytesIO(data)
        return io.StringIO(data.decode('utf-8'))

    def _count(self, k):
        self.stats[k] = self.stats.get(k, 0) + 1


class _FailingReader:
    def __init__(self, path):
        self.path = path

    def __enter__(self):
        return self

    def __exit__(self, *a):
        return False

    def read(self, *a):
        raise OSError(errno.EIO, 'Input/output error', self.path)


class CrashTracer:
    """Raise SimInterrupt at the k-th line event executed inside the library under test."""

    def __init__(self, k):
        self.k = k
        self.count = 0
        self.fired = False
        self.prefix = os.path.realpath(dznbuild.REPO_SRC) + os.sep

    def _local(self, frame, event, arg):
        if event == 'line':
            self.count += 1
            if self.count == self.k and not self.fired:
                self.fired = True
                raise SimInterrupt(f'crash at traced line {self.k}: {frame.f_code.co_filename}:{frame.f_lineno}')
        return self._local

    def _global(self, frame, event, arg):
        if frame.f_code.co_filename.startswith(self.prefix):
            return self._local
        return None

    def __enter__(self):
        sys.settrace(self._global)
        return self

    def __exit__(self, *a):
        sys.settrace(None)
        return False


def install_fs(fs: SimFS):
    dznbuild.ensure_repo_dznpy()
    import dznpy.json_ast as ja
    ja.open = fs.open   # module-global lookup precedes builtins


def uninstall_fs():
    import dznpy.json_ast as ja
    if 'open' in vars(ja):
        del ja.open


# ------------------------------------------------------------------------------------------------ references
def reference(mode, cases, hashseed='0', timeout=300):
    """Run ONE fresh interpreter for the given cases (callers pass exactly one case per process when the result
    must be independent of any earlier operation)."""
    env = dict(os.environ)
    env['PYTHONHASHSEED'] = str(hashseed)
    req = {'mode': mode, 'keep_contents': True, 'cases': cases}
    p = subprocess.run([sys.executable, CHILD], input=json.dumps(req).encode('utf-8'), stdout=subprocess.PIPE,
                       stderr=subprocess.PIPE, env=env, timeout=timeout)
    if p.returncode != 0:
        raise RuntimeError(f'reference interpreter failed: {p.stderr.decode()[-2000:]}')
    return json.loads(p.stdout)['out']


# ------------------------------------------------------------------------------------------------ document faults
def fault_document(rng: Rng, doc: dict) -> dict:
    """Structurally break one node of a well-formed AST so that parsing fails half-way (after earlier declarations
    have already been accumulated)."""
    doc = json.loads(json.dumps(doc))
    nodes = []

    def walk(n, depth):
        if isinstance(n, dict):
            if '<class>' in n and depth > 0:
                nodes.append(n)
            for v in n.values():
                walk(v, depth + 1)
        elif isinstance(n, list):
            for v in n:
                walk(v, depth + 1)

    walk(doc, 0)
    cands = [n for n in nodes if n['<class>'] in ('port', 'event', 'formal', 'signature', 'enum', 'extern', 'interface',
                                                   'component', 'system', 'ports', 'events', 'fields', 'range', 'subint')]
    if not cands:
        return doc
    # prefer late nodes: more has been accumulated when the parse fails
    n = cands[len(cands) - 1 - rng.below(max(1, len(cands) // 2))]
    kind = rng.weighted([(3, 'delete'), (2, 'retag'), (2, 'retype'), (1, 'emptyids')])
    keys = [k for k in n if k not in ('<class>', 'location')]
    if kind == 'delete' and keys:
        del n[rng.choice(keys)]
    elif kind == 'retag':
        n['<class>'] = 'bogus'
    elif kind == 'retype' and keys:
        n[rng.choice(keys)] = 12345
    else:
        if isinstance(n.get('name'), dict):
            n['name']['ids'] = []
        elif keys:
            del n[keys[0]]
    return doc
