"""C12: building never alters its inputs and is independent of earlier builds - in-process histories over shared
parsed models, configurations and builders (with crash-interrupted builds), every result compared with a fresh
interpreter per (document, configuration)."""
import json

import orjson

from . import cfggen, engine, modelgen, worldB
from .checkC16 import run_in_fresh_process, shrink
from .rng import Rng, derive
from .snapshot import snapshot

# colliding pairs ('Other_Project' vs 'Other', 'Project'), and identifiers the support files use themselves ('Dzn')
PREFIXES = [None, ['Other'], ['Other', 'Project'], ['a', 'B', 'c9'], ['Other_Project'], ['a_B', 'c9'], ['Acme', 'Dzn'], ['Dzn'], ['Dzn', 'Acme'],
            ['dzn'], ['Acme', 'Dzn', 'Dzn']]


def invalid_variants(rng: Rng, spec, cfg):
    out = []

    def clone():
        return json.loads(json.dumps(cfg))

    v = clone(); v['encapsulee'] = ['No', 'Such', 'Component']; v['fault'] = 'unknown-encapsulee'; out.append(v)
    itf = spec['interfaces'][0]
    v = clone(); v['encapsulee'] = itf['ns'] + [itf['name']]; v['fault'] = 'non-component-encapsulee'; out.append(v)
    if len(cfg['encapsulee']) >= 2:
        # a name that is right but not fully qualified (users type these): whatever the builder makes of it, it must
        # make the same of it in every process and leave the configuration as it found it
        v = clone(); v['encapsulee'] = cfg['encapsulee'][rng.between(1, len(cfg['encapsulee']) - 1):]
        v['fault'] = 'partially-qualified-encapsulee'; out.append(v)
    v = clone()
    side = rng.choice(['provides', 'requires'])
    sem = 'sts' if v[side]['sts'] != 'NONE' else 'mts'
    if isinstance(v[side][sem], list):
        v[side][sem] = v[side][sem] + ['ghost_port']
    else:
        other = 'mts' if sem == 'sts' else 'sts'
        if side == 'requires':
            v[side][other] = ['ghost_port']
        else:
            v[side][sem] = ['ghost_port']
    v['fault'] = 'unknown-port-name'; out.append(v)
    prov, req, inj = cfggen.ports_of(spec)
    if len(req) >= 2:
        v = clone(); v['requires'] = {'sts': [req[0]], 'mts': 'NONE'}; v['fault'] = 'unassigned-port'; out.append(v)
    if req:
        v = clone(); v['requires'] = {'sts': [req[0]], 'mts': [req[0]]}; v['fault'] = 'contradictory-selection'; out.append(v)
    if cfg['multiclient']:
        v = clone(); v['multiclient']['claim'] = 'NoSuchEvent'; v['fault'] = 'mc-unknown-claim'; out.append(v)
        v = clone(); v['multiclient']['grant'] = ['NoSuchValue']; v['fault'] = 'mc-unknown-grant'; out.append(v)
        v = clone(); v['multiclient']['grant'] = [spec['mc']['enum'][-1]] + list(cfg['multiclient']['grant']); v['fault'] = 'mc-qualified-grant'; out.append(v)
        v = clone(); v['multiclient']['port'] = 'nosuchport'; v['fault'] = 'mc-unknown-port'; out.append(v)
    return rng.shuffle(out)[:6]


def near_copy(rng: Rng, spec):
    """A different model that shares every name with `spec`: extern data types, enum field order, formal
    directions and event order differ.  Anything keyed on names alone (a cache, a registry) confuses the two."""
    v = json.loads(json.dumps(spec))
    for e in v['externs']:
        if rng.chance(70):
            others = [c for c in modelgen.EXTERN_CPP if c[0] != e['cpp']]
            e['cpp'], e['codec'] = rng.choice(others)
    for itf in v['interfaces']:
        if rng.chance(50) and len(itf['events']) > 1:
            itf['events'] = rng.shuffle(itf['events'])
        for ev in itf['events']:
            if ev['dir'] == 'in':
                for f in ev['formals']:
                    if rng.chance(30):
                        f['dir'] = rng.choice(['in', 'out', 'inout'])
    for en in v['enums']:
        if rng.chance(50):
            en['fields'] = rng.shuffle(en['fields'])
    return v


def gen_universe(seed, u):
    rng = Rng(derive(seed, 'C12', 'universe', u))
    docs = []
    base = None
    for k in range(3):
        if k == 1:
            spec = near_copy(rng.fork('copy'), base)
        else:
            spec = modelgen.with_generator_local_names(Rng(rng.state, 'locals', k), modelgen.gen_spec(rng.fork('spec', k), want_mc=(k == 0) or None))
        if k == 0:
            base = spec
        text = orjson.dumps(modelgen.to_json_ast(spec, rng.fork('json', k))).decode('utf-8')
        cfgs = []
        for c in range(3):
            cfg = cfggen.gen_cfg(rng.fork('cfg', k, c), spec, explicit_bias=(c == 1))
            cfg['prefix'] = rng.choice(PREFIXES)
            cfgs.append(cfg)
        cfgs += invalid_variants(rng.fork('inv', k), spec, cfgs[0])
        docs.append({'text': text, 'cfgspecs': cfgs})
    return {'u': u, 'docs': docs}


def compute_refs(universe):
    """One fresh interpreter per (document, configuration spec) and per support-file prefix."""
    refs = {}
    for di, d in enumerate(universe['docs']):
        for ci, cfg in enumerate(d['cfgspecs']):
            r = worldB.reference('build', [{'id': f'{di}/{ci}', 'json_ast': d['text'], 'cfgspecs': [cfg]}])[0]['results'][0]
            if 'files' in r:
                refs[f'{di}/{ci}'] = {'files': [[f[0], f[4]] for f in r['files']]}
            else:
                refs[f'{di}/{ci}'] = {'error': r['error']}
    for pi, p in enumerate(PREFIXES):
        refs[f'support/{pi}'] = worldB.reference('support', [{'id': pi, 'prefix': p}])[0]['result']
    return refs


def gen_history(rng: Rng, universe, faulty=True):
    ops = []
    n_fc = n_cfg = n_b = 0
    for _ in range(rng.between(4, 16)):
        kind = rng.weighted([(3, 'parse'), (4, 'mkcfg'), (8, 'build'), (1, 'support'), (1, 'newbuilder'), (2, 'edit')])
        if kind == 'parse' or n_fc == 0:
            ops.append(['parse', rng.below(len(universe['docs']))])
            n_fc += 1
        elif kind == 'mkcfg' or n_cfg == 0:
            ops.append(['mkcfg', rng.below(n_fc), rng.below(12)])
            n_cfg += 1
        elif kind == 'build':
            crash = rng.between(1, 4000) if (faulty and rng.chance(15)) else 0
            ops.append(['build', rng.below(n_b + 1) - 1, rng.below(n_cfg), crash])
        elif kind == 'support':
            ops.append(['support', rng.below(len(PREFIXES))])
        elif kind == 'edit':
            ops.append(['edit', rng.below(n_cfg), rng.below(12)])
        else:
            ops.append(['newbuilder'])
            n_b += 1
    return ops


class Violation(Exception):
    def __init__(self, cls, detail, op_index):
        super().__init__(cls)
        self.cls, self.detail, self.op_index = cls, detail, op_index


class Machine:
    def __init__(self, universe, refs, stats=None):
        from dznpy.json_ast import DznJsonAst
        from dznpy.adv_shell import Builder
        self.DznJsonAst, self.Builder = DznJsonAst, Builder
        self.universe, self.refs = universe, refs
        self.fcs = []       # [fc object, doc index, creation snapshot]
        self.cfgs = []      # [cfg object or None, doc index, cfg index, creation snapshot, mkcfg error]
        self.builders = []
        self.stats = stats if stats is not None else {}

    def _count(self, k):
        self.stats[k] = self.stats.get(k, 0) + 1

    def close(self):
        pass

    def _check_inputs(self, idx, op):
        for i, (fc, di, snap) in enumerate(self.fcs):
            if json.dumps(snapshot(fc), sort_keys=True) != snap:
                raise Violation('build:parsed-model-changed', f'parsed model #{i} (document {di}) differs from its snapshot after op {op}', idx)
        for i, ent in enumerate(self.cfgs):
            if ent[0] is not None and json.dumps(snapshot(ent[0]), sort_keys=True) != ent[3]:
                raise Violation('build:configuration-changed', f'configuration #{i} differs from its snapshot after op {op}', idx)

    def apply(self, idx, op):
        kind = op[0]
        if kind == 'parse':
            di = op[1] % len(self.universe['docs'])
            fc = self.DznJsonAst(self.universe['docs'][di]['text'].encode('utf-8')).process()
            self.fcs.append([fc, di, json.dumps(snapshot(fc), sort_keys=True)])
        elif kind == 'mkcfg':
            if not self.fcs:
                return
            fc, di, _ = self.fcs[op[1] % len(self.fcs)]
            cfgs = self.universe['docs'][di]['cfgspecs']
            ci = op[2] % len(cfgs)
            try:
                cfg = cfggen.build_configuration(cfgs[ci], fc)
            except Exception as exc:  # pylint: disable=broad-except
                self.cfgs.append([None, di, ci, None, [type(exc).__module__ + '.' + type(exc).__name__, str(exc)]])
                self._count('configuration_rejected_at_construction')
            else:
                self.cfgs.append([cfg, di, ci, json.dumps(snapshot(cfg), sort_keys=True), None])
        elif kind == 'edit':
            # the user changes a Configuration object IN PLACE (it is an ordinary mutable dataclass) so that it now says
            # what another configuration spec of the same document says; later builds must follow the edited object
            if not self.cfgs:
                return
            ent = self.cfgs[op[1] % len(self.cfgs)]
            if ent[0] is None:
                return
            di = ent[1]
            cfgs = self.universe['docs'][di]['cfgspecs']
            ci = op[2] % len(cfgs)
            try:
                fresh = cfggen.build_configuration(cfgs[ci], ent[0].ast_fc)
            except Exception:  # pylint: disable=broad-except
                return
            for field in ('dezyne_filename', 'output_basename_suffix', 'fqn_encapsulee_name', 'ports_cfg', 'facilities_origin',
                          'copyright', 'support_files_ns_prefix', 'creator_info', 'verbose'):
                setattr(ent[0], field, getattr(fresh, field))
            ent[2] = ci
            ent[3] = json.dumps(snapshot(ent[0]), sort_keys=True)
            self._count('configuration_edited_in_place')
        elif kind == 'newbuilder':
            self.builders.append(self.Builder())
        elif kind == 'build':
            if not self.cfgs:
                return
            ent = self.cfgs[op[2] % len(self.cfgs)]
            cfg, di, ci = ent[0], ent[1], ent[2]
            ref = self.refs[f'{di}/{ci}']
            fault = self.universe['docs'][di]['cfgspecs'][ci].get('fault', 'valid')
            if cfg is None:
                if 'error' not in ref or ref['error'] != ent[4]:
                    raise Violation('build:configuration-error-differs-from-fresh-process', f"{ent[4]} vs {ref.get('error')}", idx)
                return
            b = self.Builder() if (op[1] < 0 or not self.builders) else self.builders[op[1] % len(self.builders)]
            if op[1] >= 0 and self.builders:
                self._count('builder_reused')
            crash = op[3]
            try:
                if crash:
                    with worldB.CrashTracer(crash) as tr:
                        result = b.build(cfg)
                    if not tr.fired:
                        self._count('crash_point_beyond_end')
                else:
                    result = b.build(cfg)
            except worldB.SimInterrupt:
                self._count('build_interrupted')
                self._check_inputs(idx, op)
                return
            except Exception as exc:  # pylint: disable=broad-except
                got = [type(exc).__module__ + '.' + type(exc).__name__, str(exc)]
                self._count('build_failed:' + fault)
                if 'error' not in ref:
                    raise Violation('build:fails-unlike-fresh-process', f'doc {di} cfg {ci} ({fault}): {got}', idx)
                if ref['error'] != got:
                    raise Violation('build:error-differs-from-fresh-process', f"doc {di} cfg {ci} ({fault}): {got} vs {ref['error']}", idx)
            else:
                self._count('build_ok')
                files = [[f.filename, f.contents] for f in result.files]
                if 'files' not in ref:
                    raise Violation('build:succeeds-unlike-fresh-process', f"doc {di} cfg {ci} ({fault}): fresh process fails with {ref['error']}", idx)
                if files != ref['files']:
                    names = [a[0] for a, b2 in zip(files, ref['files']) if a != b2] or ['<file list>']
                    raise Violation('build:output-differs-from-fresh-process', f'doc {di} cfg {ci}: {names[:3]} differ', idx)
                # the support files of a build equal the ones generated stand-alone with the same prefix
                prefix = self.universe['docs'][di]['cfgspecs'][ci]['prefix']
                standalone = self._standalone(prefix)
                in_result = {n: c for n, c in files}
                for n, c in standalone:
                    if in_result.get(n) != c:
                        raise Violation('build:support-file-differs-from-standalone', f'{n} (prefix {prefix})', idx)
                sref = self.refs[f'support/{PREFIXES.index(prefix)}']['files']
                if [list(x) for x in standalone] != sref:
                    raise Violation('build:standalone-support-file-differs-from-fresh-process', f'prefix {prefix}', idx)
        elif kind == 'support':
            pi = op[1] % len(PREFIXES)
            standalone = self._standalone(PREFIXES[pi])
            if [list(x) for x in standalone] != self.refs[f'support/{pi}']['files']:
                raise Violation('build:standalone-support-file-differs-from-fresh-process', f'prefix {PREFIXES[pi]}', idx)
            self._count('support_files_standalone')
        self._check_inputs(idx, op)

    @staticmethod
    def _standalone(prefix):
        from dznpy.scoping import NamespaceIds
        from dznpy.support_files import strict_port, ilog, misc_utils, meta_helpers, multi_client_selector, mutex_wrapped
        ns = None if prefix is None else NamespaceIds(list(prefix))
        return [(m.create_header(ns).filename, m.create_header(ns).contents)
                for m in (strict_port, ilog, misc_utils, meta_helpers, multi_client_selector, mutex_wrapped)]


def run_histories(universe, refs, histories, stats=None):
    import contextlib
    import io
    with contextlib.redirect_stdout(io.StringIO()):
        return _run_histories(universe, refs, histories, stats)


def _run_histories(universe, refs, histories, stats=None):
    for hi, ops in enumerate(histories):
        m = Machine(universe, refs, stats)
        try:
            for i, op in enumerate(ops):
                m.apply(i, op)
        except Violation as v:
            return {'class': v.cls, 'detail': v.detail, 'history': hi, 'op': v.op_index}
        finally:
            m.close()
    return None


def universe_worker(job):
    return engine.run_isolated(_universe_worker, job)


def _universe_worker(job):
    from . import dznbuild
    dznbuild.ensure_repo_dznpy()
    seed, u, n_hist = job['seed'], job['u'], job['n_hist']
    universe = gen_universe(seed, u)
    refs = compute_refs(universe)
    rng = Rng(derive(seed, 'C12', 'histories', u))
    stats = {}
    digests, nontrivial = set(), set()
    done = []
    violation = None
    sample = None
    for h in range(n_hist):
        ops = gen_history(rng.fork('h', h), universe, faulty=bool(h % 2))
        v = run_histories(universe, refs, [ops], stats)
        done.append(ops)
        d = json.dumps(ops)
        digests.add(d)
        builds = [o for o in ops if o[0] == 'build']
        reuse = len(builds) >= 2
        if reuse:
            nontrivial.add(d)
        if sample is None and reuse:
            sample = {'universe': u, 'configurations': [[c.get('fault', 'valid') for c in x['cfgspecs']] for x in universe['docs']], 'ops': ops}
        if v and violation is None:
            small = shrink('C12', universe, refs, [ops], v['class'])
            if small is None:
                small = shrink('C12', universe, refs, done, v['class'])
            final = run_in_fresh_process('C12', universe, refs, small) if small is not None else None
            if final is None:
                # The real library returned a wrong result here, in this process, for exactly the recorded calls, but it
                # does not do so again in fresh interpreters: its behaviour depends on process state that the calls do
                # not determine (object addresses, allocator reuse, ...).  That dependence is itself what the property
                # excludes, so it is reported - flagged, with everything this process executed as the replay.
                violation = {'class': v['class'], 'detail': v['detail'] + ' [observed in the exploring process; did not recur in '
                             'fresh interpreters: the tree under test depends on process state outside the recorded calls]',
                             'replay': {'world': 'B', 'check': 'C12', 'universe': universe, 'histories': done,
                                        'reproducible': False, 'observed': v}}
                break
            violation = {'class': final['class'], 'detail': final['detail'],
                         'replay': {'world': 'B', 'check': 'C12', 'universe': universe, 'histories': small}}
            break
    return {'u': u, 'histories': len(done), 'ops': sum(len(x) for x in done), 'stats': stats, 'digests': sorted(digests),
            'nontrivial': sorted(nontrivial), 'violation': violation, 'sample': sample, 'refs': len(refs)}


def run_check(tier, seed, n_universes, n_hist):
    rep = engine.Report('C12', 'exploration', tier, seed)
    rep.assumptions = ['the reference is one fresh interpreter per (document, configuration spec), started with the same PYTHONHASHSEED '
                       'and building its configuration from the same spec including set construction order',
                       '"observably unchanged" is judged by a canonical deep snapshot of the FileContents / Configuration object graphs']
    results = engine.run_parallel(universe_worker, [{'seed': seed, 'u': u, 'n_hist': n_hist} for u in range(n_universes)])
    total_h = total_ops = refs = 0
    stats = {}
    digests, nontrivial = set(), set()
    samples = []
    import hashlib
    rd = hashlib.sha256()
    for status, r in results:
        if status != 'ok':
            rep.harness_errors.append(r)
            continue
        rd.update(json.dumps([r['u'], r['digests'], sorted(r['stats'].items()), r['violation'] and r['violation']['class']]).encode())
        total_h += r['histories']
        total_ops += r['ops']
        refs += r['refs']
        digests.update(r['digests'])
        nontrivial.update(r['nontrivial'])
        for k, v in r['stats'].items():
            stats[k] = stats.get(k, 0) + v
        if r['sample'] and len(samples) < 2:
            samples.append(r['sample'])
        if r['violation']:
            rep.add_violation(r['violation']['class'], r['violation']['detail'], r['violation']['replay'])
    faults = {k: v for k, v in stats.items() if k.startswith('build_failed') or k in ('build_interrupted', 'configuration_rejected_at_construction')}
    probes = {k: v for k, v in stats.items() if k not in faults}
    rep.coverage = {
        'evaluations': total_h, 'distinct_nontrivial': len(nontrivial),
        'rule': 'history = 4-16 ops (parse(doc), mkcfg(shared parsed model, valid or single-fault invalid spec), build(fresh or reused '
                'builder, shared configuration) optionally crashed at its k-th traced line, stand-alone support files) over a universe '
                'of 3 documents x 4-7 configuration specs; after every op all pooled inputs are re-snapshotted; non-trivial = at least '
                'two builds in one history; distinct by op list',
        'samples': samples, 'universes': n_universes, 'operations': total_ops, 'fresh_process_references': refs,
        'fault_kinds_fired': faults, 'probes': probes,
        'simulated_time': 'not applicable (no clock); logical operations only', 'distinct_interleavings': len(digests),
        'interleaving_measure': 'distinct operation sequences over the pools of parsed models, configurations and builders',
        'run_digest': rd.hexdigest(),
        'seeds': f'VERIF_SEED={seed}; universes SHA256(seed/C12/universe/<u>), u<{n_universes}',
    }
    return rep.finish()


def replay(path):
    from . import dznbuild
    dznbuild.ensure_repo_dznpy()
    rp = json.load(open(path))
    refs = compute_refs(rp['universe'])
    v = run_in_fresh_process('C12', rp['universe'], refs, rp['histories'])
    if v is None and rp.get('reproducible') is False:
        # recorded as dependent on process state: re-create the exploring conditions (forked child of this process,
        # all histories in order) - the closest an address-dependent behaviour can be approached
        v = engine.run_isolated(_replay_in_fork, {'universe': rp['universe'], 'refs': refs, 'histories': rp['histories']})
        if v is None:
            print(f"replay {path}: the recorded violation (class={rp['observed']['class']}) was flagged as not reproducible when it "
                  'was found and did not recur in this execution either')
    if v:
        print(f"  found class={v['class']} detail={v['detail']}")
        print(f'VIOLATION property=C12 replay={path}')
        return engine.EXIT_VIOLATION
    print(f'replay {path}: property held')
    return engine.EXIT_OK


def _replay_in_fork(job):
    found = None
    for ops in job['histories']:
        v = run_histories(job['universe'], job['refs'], [ops], {})
        if v and found is None:
            found = v
    return found
