"""Run tapes for World A: workload ops, scripted reactions, scheduler parameters, construction faults.

A tape is plain data (JSON-able); `render` prints the line protocol cxx/harness.cc reads.  Replay files contain
tapes verbatim, so a replay is a pure function of (tape, code).
"""
from .rng import Rng

POL_UNIFORM, POL_STICKY, POL_PCT, POL_RR, POL_DEFAULT = 0, 1, 2, 3, 4


def quote_id(name):
    """Client identifiers are arbitrary non-empty strings; on the tape and in records they are percent-coded."""
    import urllib.parse
    return urllib.parse.quote(name, safe='')


def new_run(rid, origin):
    return {
        'id': str(rid), 'seed': 1, 'policy': POL_UNIFORM, 'p1': 0, 'p2': 0, 'stall_from': 0, 'stall_len': 0,
        'budget': 20000, 'sched': None,
        'loc': {'pump': 1 if origin == 'IMPORT' else 0, 'runtime': 1 if origin == 'IMPORT' else 0, 'svcs': 0},
        'inj_absent': [], 'clients': 0, 'unbinds': [], 'parent': 0, 'probes': 0, 'scrub': 1,
        'tasks': [], 'scripts': [],
    }


def render(run) -> str:
    o = [f"RUN {run['id']}",
         f"CFG {run['seed'] & ((1 << 63) - 1)} {run['policy']} {run['p1']} {run['p2']} {run['stall_from']} {run['stall_len']} {run['budget']} 1"]
    if run.get('sched') is not None:
        o.append('X ' + ' '.join(str(x) for x in run['sched']))
    loc = run['loc']
    o.append(f"LOC {loc['pump']} {loc['runtime']} {loc['svcs']}")
    for p in run['inj_absent']:
        o.append(f'INJ {p} 0')
    o.append(f"CLIENTS {run['clients']} " + ' '.join(quote_id(n) for n in (run.get('client_names') or [])))
    for side, ev, cl in run['unbinds']:
        o.append(f'UNBIND {side} {ev} {cl}')
    o.append(f"PARENT {run['parent']}")
    o.append(f"PROBES {run['probes']}")
    o.append(f"SCRUB {run['scrub']}")
    if run.get('connect'):
        o.append('CONNECT 1')
    if run.get('templog'):
        o.append('TEMPLOG 1')
    if run.get('lazycomp'):
        o.append('LAZYCOMP 1')
    if run.get('idquery'):
        o.append(f"IDQUERY {run['idquery']}")
    if run.get('sibling'):
        o.append(f"SIBLING {run['sibling']}")
    if run.get('reentry'):
        o.append(f"REENTRY {run['reentry']}")
    if run.get('temploc'):
        o.append('TEMPLOC 1')
    if run.get('hquery'):
        o.append('HQUERY 1')
    if run.get('refetch'):
        o.append('REFETCH 1')
    if run.get('setuporder'):
        o.append('SETUPORDER 1')
    if run.get('reentryfc'):
        o.append(f"REENTRYFC {run['reentryfc']}")
    if run.get('slowlog'):
        o.append(f"SLOWLOG {run['slowlog']}")
    for t in run['tasks']:
        o.append(f"TASK {t['name']}" + (' pre' if t.get('pre') else ''))
        for op in t['ops']:
            o.append(' '.join(str(x) for x in op))
    for side, ev, reply, wish, follow in run['scripts']:
        o.append(f"S {side} {ev} {reply} {wish} {len(follow)} " + ' '.join(str(f) for f in follow))
    o.append('END')
    return '\n'.join(o) + '\n'


# ------------------------------------------------------------------------------------------------ helpers
CLIENT_NAME_POOL = [' lead', 'trail ', 'in ner', '\ttab', 'a,b', '100%', 'zeta', 'alpha', 'mike', 'client10', 'client2', 'client1', 'A', 'a', 'Z', 'b.c', 'x/y', 'ab', 'abc', '9lives', '_u', 'UPPER',
                    'lower', 'mixedCase', 'mixedcase', 'c', 'cc', 'ccc', '~tilde', '0']


def vary_env(rng: Rng, run):
    """Environment variations that are legal for any user and any wrapped component (drawn from a stream derived from,
    but not advancing, the generator's): a component that does not look up the runtime itself, and a query for the
    client identifiers in the middle of registration."""
    r = Rng(rng.state, 'env')
    run['lazycomp'] = 1 if r.chance(40) else 0
    if run.get('clients', 0) >= 2 and r.chance(50):
        run['idquery'] = r.between(1, run['clients'] - 1)
    if r.chance(30):
        run['sibling'] = r.between(1, 2)   # a second, independent instance of the same shell type lives in the process
    if r.chance(35):
        run['refetch'] = 1   # the user asks the accessor for the port again at every call instead of keeping it
    if run.get('clients', 0) >= 1 and r.chance(35):
        run['hquery'] = 1    # out-event handlers of the multi-client port ask the shell for the client identifiers
    if run['loc']['pump'] == 0 and run['loc']['runtime'] == 0 and r.chance(40):
        run['temploc'] = 1   # 'create' worlds only (new_run puts pump and runtime into the user's locator for 'import')
    return run


def client_names(rng: Rng, n):
    """Registered client identifiers in registration order: arbitrary non-empty strings, deliberately NOT in
    lexicographic order, with prefixes of each other and case variants."""
    if n <= 0:
        return []
    if rng.chance(25):
        return [f'client{k}' for k in range(n)]
    return rng.sample(CLIENT_NAME_POOL, n)


def classify_events(ports, events):
    """Split the event table by who calls and who handles."""
    outer_callable, inner_callable, inner_handled, outer_handled = [], [], [], []
    for e in events:
        p = ports[e['port']]
        provides = p['dir'] == 'provides'
        is_in = e['dir'] == 'in'
        if p['sem'] == 'INJ':
            # component -> user's instance (in-events only); out-events of injected ports are unreachable
            if is_in:
                inner_callable.append(e)
                outer_handled.append(e)
            continue
        if (provides and is_in) or (not provides and not is_in):
            outer_callable.append(e)
            inner_handled.append(e)
        else:
            inner_callable.append(e)
            outer_handled.append(e)
    return outer_callable, inner_callable, inner_handled, outer_handled


def reply_value(rng: Rng, e):
    if e['ret'] == 'void':
        return 0
    if e['ret'] == 'bool':
        return rng.below(2)
    return e['ret_lo'] + rng.below(max(1, e['ret_n']))


def random_sched(rng: Rng, run, est_steps):
    pol = rng.weighted([(4, POL_UNIFORM), (3, POL_STICKY), (3, POL_PCT), (2, POL_RR)])
    run['seed'] = rng.u64()
    run['policy'] = pol
    if pol == POL_STICKY:
        run['p1'] = rng.between(30, 95)
    elif pol == POL_PCT:
        run['p1'] = rng.between(1, 3)
        run['p2'] = max(10, est_steps)
    elif pol == POL_RR:
        run['p1'] = rng.between(1, 6)
    if rng.chance(30):
        run['stall_from'] = rng.below(max(1, est_steps // 2))
        run['stall_len'] = rng.between(5, max(6, est_steps // 2))


def gen_scripts(rng: Rng, ports, events, follow_prob=50, max_follow=2):
    oc, ic, ih, oh = classify_events(ports, events)
    scripts = []
    for e in ih:
        for _ in range(rng.between(1, 3)):
            follow = []
            if ic and rng.chance(follow_prob):
                follow = [rng.choice(ic)['idx'] for _ in range(rng.between(1, max_follow))]
            scripts.append([1, e['idx'], reply_value(rng, e), 1 if rng.chance(85) else 0, follow])
    for e in oh:
        for _ in range(rng.between(1, 2)):
            scripts.append([0, e['idx'], reply_value(rng, e), 1, []])
    return scripts


def mc_info(mb):
    mc = mb.cfgspec['multiclient']
    if not mc:
        return None
    port = [p for p in mb.ports if p['sem'] == 'MC'][0]
    claim = [e for e in mb.events if e['port'] == port['idx'] and e['name'] == mc['claim']][0]
    release = [e for e in mb.events if e['port'] == port['idx'] and e['name'] == mc['release']][0]
    return {'port': port['idx'], 'claim': claim['idx'], 'release': release['idx']}


def gen_routing_run(rng: Rng, mb, rid, sweep=False):
    """Workload for C01/C02/C09: clients call provides in-events, peers raise requires out-events, the scripted
    component reacts.  A multi-client port is driven by one registered client that claims first and never releases."""
    run = new_run(rid, mb.cfgspec['origin'])
    ports, events = mb.ports, mb.events
    oc, ic, ih, oh = classify_events(ports, events)
    mci = mc_info(mb)
    run['clients'] = 1 if mci else 0
    run['client_names'] = client_names(rng.fork('names'), run['clients'])
    vary_env(rng, run)
    run['loc']['svcs'] = rng.below(3)
    run['parent'] = rng.below(2)
    client_events = [e for e in oc if ports[e['port']]['dir'] == 'provides' and (not mci or e['idx'] not in (mci['claim'], mci['release']))]
    mc_client_events = [e for e in client_events if ports[e['port']]['sem'] == 'MC']
    plain_client_events = [e for e in client_events if ports[e['port']]['sem'] != 'MC']
    peer_events = [e for e in oc if ports[e['port']]['dir'] == 'requires']
    tasks = []
    if sweep:
        ops = []
        if mci:
            ops.append(['O', mci['claim'], 0])
        ops += [['O', e['idx'], 0] for e in client_events]
        tasks.append({'name': 'c0', 'ops': ops})
        if peer_events:
            tasks.append({'name': 'p0', 'ops': [['O', e['idx'], -1] for e in peer_events]})
        scripts = []
        # every inner-callable event is raised by the first invocation of every inner handler
        for e in ih:
            scripts.append([1, e['idx'], reply_value(rng, e), 1, [x['idx'] for x in ic]])
        for e in oh:
            scripts.append([0, e['idx'], reply_value(rng, e), 1, []])
        run['scripts'] = scripts
    else:
        n_clients = rng.between(1, 3) if client_events or mci else 0
        for k in range(n_clients):
            ops = []
            mine = plain_client_events + (mc_client_events if k == 0 else [])
            if k == 0 and mci:
                ops.append(['O', mci['claim'], 0])
            for _ in range(rng.between(2, 10)):
                if mine:
                    ops.append(['O', rng.choice(mine)['idx'], 0])
                if rng.chance(15):
                    ops.append(['W', rng.between(1, 4)])
            if k == 0 and mci and rng.chance(50):
                ops.append(['O', mci['release'], 0])   # the holder releases at the very end (closes its window)
            if ops:
                tasks.append({'name': f'c{k}', 'ops': ops})
        n_peers = rng.between(0, 2) if peer_events else 0
        if peer_events and not tasks:
            n_peers = max(1, n_peers)
        for k in range(n_peers):
            ops = []
            for _ in range(rng.between(2, 10)):
                ops.append(['O', rng.choice(peer_events)['idx'], -1])
                if rng.chance(15):
                    ops.append(['W', rng.between(1, 4)])
            tasks.append({'name': f'p{k}', 'ops': ops})
        run['scripts'] = gen_scripts(rng, ports, events)
    if mci:
        # the single client's claims are always granted (selection itself is C04's subject)
        for s in run['scripts']:
            if s[0] == 1 and s[1] == mci['claim']:
                s[3] = 1
    early = Rng(rng.state, 'early')
    if mci and not sweep and tasks and tasks[0]['name'] == 'c0' and tasks[0]['ops'][0] == ['O', mci['claim'], 0] and early.chance(30):
        # the client claims before the user gets round to FinalConstruct, and then replaces its out-event handlers
        # (a new peer takes over) while its port is quiet; both before any other task exists
        del tasks[0]['ops'][0]
        pre = [['O', mci['claim'], 0]] + ([['R', 0]] if early.chance(70) else [])
        tasks = [{'name': 'early', 'ops': pre, 'pre': 1}] + [t for t in tasks if t['ops']]
    run['tasks'] = tasks
    run['connect'] = 1 if rng.chance(35) else 0
    run['templog'] = 1 if (mci and rng.chance(50)) else 0
    total_ops = sum(len(t['ops']) for t in tasks)
    est = 40 * total_ops + 50
    random_sched(rng, run, est)
    run['budget'] = 5000 + 600 * total_ops
    return run


# ------------------------------------------------------------------------------------------------ C09
def gen_c09_runs(rng: Rng, mb, n):
    """Exhaustive construction-fault enumeration {pump?} x {runtime?} x {0,1,2 user services}, then workloads in
    the one world per origin in which construction must succeed (identity monitored on every dispatched event)."""
    origin = mb.cfgspec['origin']
    runs = []
    for lazy in (0, 1):
        for pump in (0, 1):
            for runtime in (0, 1):
                for svcs in (0, 1, 2):
                    run = new_run(f'loc{pump}{runtime}{svcs}' + ('lazy' if lazy else ''), origin)
                    run['loc'] = {'pump': pump, 'runtime': runtime, 'svcs': svcs}
                    run['clients'] = 1 if mb.mc else 0
                    run['policy'] = POL_DEFAULT
                    run['kind'] = 'construction'
                    run['lazycomp'] = lazy
                    runs.append(run)
    for i in range(n):
        run = gen_routing_run(rng.fork('w', i), mb, f'w{i}')
        run['kind'] = 'workload'
        runs.append(run)
    return runs


# ------------------------------------------------------------------------------------------------ C10
def user_bound_events(mb, n_clients):
    """(side, event index, client) of every event the user (or the component itself) must bind."""
    out = []
    for e in mb.events:
        p = mb.ports[e['port']]
        provides = p['dir'] == 'provides'
        is_in = e['dir'] == 'in'
        outer_handles = (provides and not is_in) or (not provides and is_in)
        if outer_handles:
            if p['sem'] == 'MC':
                for k in range(n_clients):
                    out.append((0, e['idx'], k))
            else:
                out.append((0, e['idx'], -1))
        else:
            if p['sem'] == 'INJ':
                continue   # out-events of an injected port are bound by the component on its private copy
            out.append((1, e['idx'], -1))
    return out


def gen_c10_runs(rng: Rng, mb, n):
    """Exhaustive single-fault enumeration: the all-bound world (default and explicit parent) and one world per
    event that is left unbound."""
    origin = mb.cfgspec['origin']
    n_clients = rng.between(0, 3) if mb.mc else 0
    names = client_names(rng.fork('names'), n_clients)
    runs = []
    for parent in (0, 1):
        run = new_run(f'allbound-parent{parent}', origin)
        run.update({'clients': n_clients, 'client_names': names, 'parent': parent, 'probes': 1 | 4, 'policy': POL_DEFAULT, 'kind': 'all-bound'})
        vary_env(Rng(rng.state, 'allbound', parent), run)
        runs.append(run)
    for side, ev, cl in user_bound_events(mb, n_clients):
        run = new_run(f'unbound-{side}-{ev}-{cl}', origin)
        run.update({'clients': n_clients, 'client_names': names, 'parent': rng.below(2), 'probes': 3, 'policy': POL_DEFAULT,
                    'kind': 'one-unbound', 'unbinds': [[side, ev, cl]]})
        vary_env(Rng(rng.state, 'unbound'), run)
        runs.append(run)
    if mb.mc and n_clients > 0:
        # another legal order of the set-up steps (bind every port as soon as it has been obtained), alone and with a log
        # sink that calls FinalConstruct itself on its k-th message - i.e. while some client is being registered and
        # everything obtained so far is bound.  If that FinalConstruct succeeds, the client being registered is too late.
        run = new_run('setup-interleaved', origin)
        run.update({'clients': n_clients, 'client_names': names, 'parent': 1, 'probes': 1, 'policy': POL_DEFAULT, 'kind': 'all-bound', 'setuporder': 1})
        runs.append(run)
        for k in sorted({1, 2, 2 * n_clients - 1, 2 * n_clients, rng.between(1, 2 * n_clients + 1)}):
            run = new_run(f'setup-sink-finalconstructs-{k}', origin)
            run.update({'clients': n_clients, 'client_names': names, 'parent': 1, 'probes': 1, 'policy': POL_DEFAULT,
                        'kind': 'reentrant-final-construct', 'setuporder': 1, 'reentryfc': k})
            runs.append(run)
    if mb.mc and mb.mc['out_events'] and n_clients > 0:
        # fault kind "user callback re-enters the shell": the user's log sink registers a client of its own ('monitor', never
        # bound) when it receives its k-th message - during the registration of the others, or whenever else the shell logs
        for k in sorted({1, 2, rng.between(1, 2 * n_clients), 2 * n_clients, 2 * n_clients + 1, 2 * n_clients + 2}):
            run = new_run(f'reentry-{k}', origin)
            run.update({'clients': n_clients, 'client_names': names, 'parent': rng.below(2), 'probes': 3, 'policy': POL_DEFAULT,
                        'kind': 'reentrant-log', 'reentry': k})
            runs.append(run)
    return runs


# ------------------------------------------------------------------------------------------------ C04
def gen_c04_run(rng: Rng, mb, rid, faulty):
    """Sequential history on a multi-client port: ONE driver task issues claim / release / other in-events on behalf
    of 1-4 registered clients and raises requires out-events; the dispatcher is the only other task.  The scripted
    component is an exclusive arbiter and reacts by raising out-events on the multi-client port.
    faulty: rogue releases by non-holders and denied claims are part of the history."""
    run = new_run(rid, mb.cfgspec['origin'])
    mc = mb.mc
    ports, events = mb.ports, mb.events
    oc, ic, ih, oh = classify_events(ports, events)
    n_clients = rng.between(1, 4)
    run['clients'] = n_clients
    run['client_names'] = client_names(rng.fork('names'), n_clients)
    vary_env(rng, run)
    run['parent'] = rng.below(2)
    mc_out = list(mc['out_events'])
    others = list(mc['other_in'])
    other_ports_in = [e['idx'] for e in oc if ports[e['port']]['dir'] == 'provides' and ports[e['port']]['sem'] != 'MC']
    peer_events = [e['idx'] for e in oc if ports[e['port']]['dir'] == 'requires']
    ops = []
    holder = None   # the generator's own idea of the holder, only used to bias the history
    for _ in range(rng.between(5, 40)):
        kind = rng.weighted([(5, 'claim'), (4, 'release'), (4, 'other'), (3, 'otherport'), (4, 'peer'), (2, 'idle'), (1, 'rebind')])
        if kind == 'rebind':
            ops.append(['R', rng.below(n_clients)])   # a client replaces its out-event handlers while its port is quiet
        elif kind == 'claim':
            x = rng.below(n_clients)
            if not faulty and holder is not None:
                continue
            ops.append(['O', mc['claim'], x])
            if holder is None:
                holder = x
        elif kind == 'release':
            if holder is None and not faulty:
                continue
            x = holder if (holder is not None and (not faulty or rng.chance(60))) else rng.below(n_clients)
            ops.append(['O', mc['release'], x])
            if x == holder:
                holder = None
        elif kind == 'other' and others:
            x = holder if (holder is not None and rng.chance(80)) else rng.below(n_clients)
            ops.append(['O', rng.choice(others), x])
        elif kind == 'otherport' and other_ports_in:
            ops.append(['O', rng.choice(other_ports_in), 0])
        elif kind == 'peer' and peer_events:
            ops.append(['O', rng.choice(peer_events), -1])
            if rng.chance(60):
                ops.append(['W', rng.between(1, 6)])
        else:
            ops.append(['W', rng.between(1, 5)])
    run['tasks'] = [{'name': 'drv', 'ops': ops}]
    early = Rng(rng.state, 'early')
    if len(ops) >= 2 and early.chance(25):
        # the first few calls are made after the ports are bound but before the user calls FinalConstruct
        k = early.between(1, min(4, len(ops) - 1))
        run['tasks'] = [{'name': 'early', 'ops': ops[:k], 'pre': 1}, {'name': 'drv', 'ops': ops[k:]}]
    scripts = []
    for e in ih:
        is_claim = e['idx'] == mc['claim']
        is_release = e['idx'] == mc['release']
        for _ in range(rng.between(1, 3)):
            follow = []
            if mc_out and rng.chance(25 if (is_claim or is_release) else 75):
                follow = [rng.choice(mc_out) for _ in range(rng.between(1, 2))]
            wish = 1 if (not faulty or rng.chance(75)) else 0
            scripts.append([1, e['idx'], reply_value(rng, e) if not is_claim else rng.below(8), wish, follow])
    for e in oh:
        scripts.append([0, e['idx'], reply_value(rng, e), 1, []])
    run['scripts'] = scripts
    run['connect'] = 1 if rng.chance(30) else 0
    run['templog'] = 1 if rng.chance(50) else 0
    run['faulty'] = faulty
    est = 40 * len(ops) + 50
    random_sched(rng, run, est)
    run['budget'] = 6000 + 600 * len(ops)
    return run


def gen_c04_runs(rng: Rng, mb, n):
    return [gen_c04_run(rng.fork('h', i), mb, f"{'f' if i % 2 else 'n'}{i}", faulty=bool(i % 2)) for i in range(n)]


# ------------------------------------------------------------------------------------------------ C11
def gen_c11_run(rng: Rng, mb, rid):
    """2-3 client threads run claim/use/release cycles with retry on denial, 1-2 peer threads raise requires out-events
    that make the exclusive-arbiter component raise out-events on the multi-client port; the dispatcher is the
    remaining task.  Fault kinds: release by a non-holder, slow ILog sink, dispatcher stalls."""
    run = new_run(rid, mb.cfgspec['origin'])
    mc = mb.mc
    ports, events = mb.ports, mb.events
    oc, ic, ih, oh = classify_events(ports, events)
    n_clients = rng.between(2, 3)
    run['clients'] = n_clients
    run['client_names'] = client_names(rng.fork('names'), n_clients)
    vary_env(rng, run)
    mc_out = list(mc['out_events'])
    others = list(mc['other_in'])
    peer_events = [e['idx'] for e in oc if ports[e['port']]['dir'] == 'requires']
    other_ports_in = [e['idx'] for e in oc if ports[e['port']]['dir'] == 'provides' and ports[e['port']]['sem'] != 'MC']
    tasks = []
    faults = []
    for k in range(n_clients):
        ops = []
        if rng.chance(12):
            ops.append(['O', mc['release'], k])     # fault: release without holding the claim
            faults.append('rogue_release')
        use = rng.choice(others) if (others and rng.chance(70)) else -1
        ops.append(['Y', k, rng.between(5, 15), rng.between(1, 4), use, rng.between(0, 3), rng.between(0, 3)])
        if rng.chance(12):
            ops.append(['O', mc['release'], k])
            faults.append('rogue_release')
        tasks.append({'name': f'c{k}', 'ops': ops})
    n_peers = rng.between(1, 2) if (peer_events or other_ports_in) else 0
    for k in range(n_peers):
        ops = []
        for _ in range(rng.between(3, 12)):
            if peer_events and (not other_ports_in or rng.chance(70)):
                ops.append(['O', rng.choice(peer_events), -1])
            else:
                ops.append(['O', rng.choice(other_ports_in), 0])
            if rng.chance(30):
                ops.append(['W', rng.between(1, 5)])
        tasks.append({'name': f'p{k}', 'ops': ops})
    run['tasks'] = tasks
    scripts = []
    for e in ih:
        is_ctl = e['idx'] in (mc['claim'], mc['release'])
        for _ in range(rng.between(1, 3)):
            follow = []
            if mc_out and rng.chance(15 if is_ctl else 80):
                follow = [rng.choice(mc_out) for _ in range(rng.between(1, 2))]
            scripts.append([1, e['idx'], reply_value(rng, e) if e['idx'] != mc['claim'] else rng.below(8), 1 if rng.chance(88) else 0, follow])
    for e in oh:
        scripts.append([0, e['idx'], reply_value(rng, e), 1, []])
    run['scripts'] = scripts
    if rng.chance(20):
        run['slowlog'] = rng.between(1, 3)
        faults.append('slow_log_sink')
    run['connect'] = 1 if rng.chance(30) else 0
    if rng.chance(50):
        run['templog'] = 1
        faults.append('log_object_destroyed_after_construction')
    run['fault_plan'] = faults
    total = sum(12 * op[2] if op[0] == 'Y' else 1 for t in tasks for op in t['ops'])
    random_sched(rng, run, 30 * total + 100)
    run['budget'] = 20000 + 2500 * total
    return run


def gen_c11_runs(rng: Rng, mb, n):
    return [gen_c11_run(rng.fork('s', i), mb, f's{i}') for i in range(n)]
