"""Deterministic, hash-seed independent pseudo random numbers.

Every random choice of the harness is drawn from a SplitMix64 stream whose state is derived with
SHA-256 from (VERIF_SEED, property, case, stream name).  Python's `random`, `hash()` and set/dict
iteration order of harness data never feed a choice.
"""
import hashlib

MASK = (1 << 64) - 1


def derive(*parts) -> int:
    """64-bit seed from arbitrary (stringifiable) parts."""
    text = '/'.join(str(p) for p in parts)
    return int.from_bytes(hashlib.sha256(text.encode('utf-8')).digest()[:8], 'big')


class Rng:
    """SplitMix64."""

    def __init__(self, *parts):
        self.state = derive(*parts) if not (len(parts) == 1 and isinstance(parts[0], int)) \
            else parts[0] & MASK

    def u64(self) -> int:
        self.state = (self.state + 0x9E3779B97F4A7C15) & MASK
        z = self.state
        z = ((z ^ (z >> 30)) * 0xBF58476D1CE4E5B9) & MASK
        z = ((z ^ (z >> 27)) * 0x94D049BB133111EB) & MASK
        return z ^ (z >> 31)

    def below(self, n: int) -> int:
        return self.u64() % n if n > 0 else 0

    def between(self, lo: int, hi: int) -> int:
        """Inclusive range."""
        return lo + self.below(hi - lo + 1)

    def chance(self, percent: int) -> bool:
        return self.below(100) < percent

    def choice(self, seq):
        return seq[self.below(len(seq))]

    def shuffle(self, seq):
        lst = list(seq)
        for i in range(len(lst) - 1, 0, -1):
            j = self.below(i + 1)
            lst[i], lst[j] = lst[j], lst[i]
        return lst

    def sample(self, seq, k):
        return self.shuffle(seq)[:k]

    def weighted(self, pairs):
        """pairs: [(weight, value), ...]"""
        total = sum(w for w, _ in pairs)
        x = self.below(total)
        for w, v in pairs:
            if x < w:
                return v
            x -= w
        return pairs[-1][1]

    def fork(self, *parts) -> 'Rng':
        return Rng(self.u64(), *parts)
