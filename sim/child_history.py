"""Fresh-interpreter executor of World B histories (confirmation, shrinking and replay of violations)."""
import json
import os
import sys

sys.path.insert(0, os.path.dirname(os.path.dirname(os.path.abspath(__file__))))
sys.dont_write_bytecode = True

from sim import dznbuild  # noqa: E402


def main():
    proto = os.fdopen(os.dup(1), 'w')
    os.dup2(2, 1)
    sys.stdout = sys.stderr
    req = json.load(sys.stdin)
    dznbuild.ensure_repo_dznpy()
    if req['world'] == 'C16':
        from sim import checkC16
        v = checkC16.run_histories(req['universe'], req['refs'], req['histories'])
    else:
        from sim import checkC12
        v = checkC12.run_histories(req['universe'], req['refs'], req['histories'])
    json.dump({'violation': v}, proto)
    proto.flush()


if __name__ == '__main__':
    main()
