"""World A: the compiled generated shell under the simulated dispatcher.

model spec --JSON--> REAL dznpy parser + builder --files--> compiled together with the mock model header, the glue,
the mock Dezyne runtime and the simulation kernel --> one binary per (model, configuration, sanitizer flavour),
executed on batches of run tapes.
"""
import fcntl
import json
import os
import shutil
import subprocess
import tempfile

import orjson

from . import cxxgen, cfggen, modelgen, dznbuild

VERIF = os.path.dirname(os.path.dirname(os.path.abspath(__file__)))
CXX_DIR = os.path.join(VERIF, 'cxx')
BUILD_DIR = os.path.join(VERIF, 'build')
CXX = os.environ.get('VERIF_CXX', 'clang++')
CC = os.environ.get('VERIF_CC', 'clang')

FLAVORS = {
    'asan': ['-fsanitize=address,undefined', '-fno-sanitize-recover=undefined', '-fno-omit-frame-pointer'],
    'tsan': ['-fsanitize=thread', '-fno-omit-frame-pointer'],
    'plain': [],
}
COMMON = ['-std=c++17', '-O1', '-g', '-Wall', '-Wno-unused-variable', '-Wno-unused-but-set-variable',
          '-Wno-unused-lambda-capture', '-Wno-unused-value', '-Wno-unused-parameter']
LINK = ['-Wl,--wrap=pthread_mutex_lock', '-Wl,--wrap=pthread_mutex_unlock', '-Wl,--wrap=pthread_mutex_trylock',
        '-Wl,--wrap=pthread_rwlock_rdlock', '-Wl,--wrap=pthread_rwlock_wrlock', '-Wl,--wrap=pthread_rwlock_tryrdlock',
        '-Wl,--wrap=pthread_rwlock_trywrlock', '-Wl,--wrap=pthread_rwlock_unlock',
        '-Wl,--wrap=pthread_mutex_timedlock', '-Wl,--wrap=pthread_mutex_clocklock', '-lpthread']

SAN_ENV = {
    'ASAN_OPTIONS': 'detect_stack_use_after_return=1:detect_leaks=0:abort_on_error=0:exitcode=97:allocator_may_return_null=1',
    'UBSAN_OPTIONS': 'print_stacktrace=1:halt_on_error=1:exitcode=98',
    'TSAN_OPTIONS': 'atexit_sleep_ms=0:halt_on_error=0:report_thread_leaks=0:exitcode=0:second_deadlock_stack=1:history_size=4',
}


class HarnessError(Exception):
    pass


class GenerationFailure(Exception):
    """The real parser/builder raised on a model and configuration the generator produced as valid."""


class CompileFailure(Exception):
    def __init__(self, where, diagnostics):
        super().__init__(where)
        self.where = where            # 'generated' | 'harness'
        self.diagnostics = diagnostics


def _run(cmd, cwd=None, timeout=600):
    return subprocess.run(cmd, cwd=cwd, stdout=subprocess.PIPE, stderr=subprocess.STDOUT, timeout=timeout, text=True,
                          errors='replace')


def ensure_runtime(flavor: str):
    """Compile kernel.o (no sanitizer) and harness_<flavor>.o when missing or stale; safe under parallel callers."""
    os.makedirs(BUILD_DIR, exist_ok=True)
    lock = open(os.path.join(BUILD_DIR, '.lock'), 'w')
    fcntl.flock(lock, fcntl.LOCK_EX)
    try:
        srcs = [os.path.join(CXX_DIR, f) for f in ('kernel.c', 'kernel.h', 'harness.cc', 'harness.hh', 'simtypes.hh',
                                                     'dzn/pump.hh', 'dzn/locator.hh', 'dzn/meta.hh', 'dzn/runtime.hh')]
        newest = max(os.path.getmtime(s) for s in srcs)
        kobj = os.path.join(BUILD_DIR, 'kernel.o')
        if not os.path.exists(kobj) or os.path.getmtime(kobj) < newest:
            r = _run([CC, '-O1', '-g', '-fno-builtin', '-fno-sanitize=all', '-c', os.path.join(CXX_DIR, 'kernel.c'), '-o', kobj + '.tmp'])
            if r.returncode != 0:
                raise HarnessError('kernel compile failed:\n' + r.stdout)
            os.replace(kobj + '.tmp', kobj)
        hobj = os.path.join(BUILD_DIR, f'harness_{flavor}.o')
        if not os.path.exists(hobj) or os.path.getmtime(hobj) < newest:
            r = _run([CXX] + COMMON + FLAVORS[flavor] + ['-I', CXX_DIR, '-c', os.path.join(CXX_DIR, 'harness.cc'), '-o', hobj + '.tmp'])
            if r.returncode != 0:
                raise HarnessError('harness compile failed:\n' + r.stdout)
            os.replace(hobj + '.tmp', hobj)
        return kobj, hobj
    finally:
        fcntl.flock(lock, fcntl.LOCK_UN)
        lock.close()


class ModelBuild:
    """A compiled simulation binary for one (model, configuration, flavour)."""

    def __init__(self, workdir, spec, cfgspec, flavor):
        self.workdir = workdir
        self.spec = spec
        self.cfgspec = cfgspec
        self.flavor = flavor
        self.binary = os.path.join(workdir, 'sim')
        self.ports, self.events = cxxgen.event_table(spec, cfgspec)
        self.static_facts = {}
        self.files = []
        self.compile_s = 0.0
        self.mc = None
        mc = cfgspec['multiclient']
        if mc:
            port = [p for p in self.ports if p['sem'] == 'MC'][0]
            claim = [e for e in self.events if e['port'] == port['idx'] and e['name'] == mc['claim']][0]
            release = [e for e in self.events if e['port'] == port['idx'] and e['name'] == mc['release']][0]
            enum = modelgen.find_enum(spec, spec['mc']['enum'])
            self.mc = {'port': port['idx'], 'claim': claim['idx'], 'release': release['idx'],
                       'grant': enum['fields'].index(mc['grant'][0]), 'n_fields': len(enum['fields']),
                       'out_events': [e['idx'] for e in self.events if e['port'] == port['idx'] and e['dir'] == 'out'],
                       'other_in': [e['idx'] for e in self.events if e['port'] == port['idx'] and e['dir'] == 'in'
                                    and e['idx'] not in (claim['idx'], release['idx'])]}

    def cleanup(self):
        shutil.rmtree(self.workdir, ignore_errors=True)


def generate_files(spec, cfgspec, json_bytes):
    """Run the REAL parser and builder from /repo/src."""
    try:
        fc = dznbuild.parse_json_ast(json_bytes)
        return dznbuild.build(cfgspec, fc, rebuild=True)
    except Exception as exc:  # pylint: disable=broad-except
        raise GenerationFailure(f'{type(exc).__module__}.{type(exc).__name__}: {exc}') from exc


def companion_cfg(spec, cfgspec):
    """Configuration of the COMPANION shell of a model: the same component wrapped a second time, with the other
    facilities origin and another name, generated by the same dznpy and linked into the same simulated program (a
    program may well contain several generated shells).  None when the model gets no companion."""
    if not cfgspec.get('companion') or not spec['component']['ns']:
        return None
    c = json.loads(json.dumps(cfgspec))
    c['origin'] = 'IMPORT' if cfgspec['origin'] == 'CREATE' else 'CREATE'
    c['suffix'] = cfgspec['suffix'] + 'Mate'
    c['companion'] = False
    return c


def prepare_model(spec, cfgspec, json_bytes, flavor='asan', scratch_root=None, files=None, companion_files=None) -> ModelBuild:
    import time
    t0 = time.time()
    kobj, hobj = ensure_runtime(flavor)
    if files is None:
        files = generate_files(spec, cfgspec, json_bytes)
    ccfg = companion_cfg(spec, cfgspec)
    if ccfg is not None and companion_files is None:
        companion_files = generate_files(spec, ccfg, json_bytes)
    workdir = tempfile.mkdtemp(prefix='verif-A-', dir=scratch_root)
    mb = ModelBuild(workdir, spec, cfgspec, flavor)
    mb.files = files
    try:
        for name, contents, _ in files:
            with open(os.path.join(workdir, name), 'w', encoding='utf-8', newline='') as f:
                f.write(contents)
        base, shell = cxxgen.shell_names(spec, cfgspec)
        with open(os.path.join(workdir, base + '.hh'), 'w') as f:
            f.write(cxxgen.gen_model_header(spec))
        with open(os.path.join(workdir, 'glue.cc'), 'w') as f:
            f.write(cxxgen.gen_glue(spec, cfgspec))
        generated_names = {n for n, _, _ in files}
        mate_cc = None
        if ccfg is not None:
            main_names = {n for n, _, _ in files}
            for name, contents, _ in companion_files:
                if name in main_names:
                    continue   # the support files: same prefix, same text
                with open(os.path.join(workdir, name), 'w', encoding='utf-8', newline='') as f:
                    f.write(contents)
            generated_names |= {n for n, _, _ in companion_files}
            mate_cc = cxxgen.shell_names(spec, ccfg)[1] + '.cc'
            if mate_cc not in generated_names:
                raise CompileFailure('generated', f'builder did not return {mate_cc}')
        shell_cc = shell + '.cc'
        if shell_cc not in generated_names:
            raise CompileFailure('generated', f'builder did not return {shell_cc}; got {sorted(generated_names)}')
        objs = []
        # A shell for an encapsulee in the global namespace is rendered inside an anonymous namespace (upstream's
        # golden output; separate-TU usability is C06's subject, not claimed): such shells are compiled in the
        # glue's translation unit.
        single_tu = not spec['component']['ns']
        if single_tu:
            gpath = os.path.join(workdir, 'glue.cc')
            text = open(gpath).read().replace(f'#include "{shell}.hh"', f'#include "{shell_cc}"', 1)
            with open(gpath, 'w') as f:
                f.write(text)
        for src in (('glue.cc',) if single_tu else ((shell_cc, mate_cc, 'glue.cc') if mate_cc else (shell_cc, 'glue.cc'))):
            obj = src + '.o'
            opt = ['-O0'] if src == 'glue.cc' else []
            r = _run([CXX] + COMMON + opt + FLAVORS[flavor] + ['-I', CXX_DIR, '-I', workdir, '-c', src, '-o', obj], cwd=workdir)
            if r.returncode != 0:
                raise CompileFailure(_classify(r.stdout, generated_names), r.stdout[-6000:])
            objs.append(obj)
        r = _run([CXX] + FLAVORS[flavor] + objs + [hobj, kobj] + LINK + ['-o', 'sim'], cwd=workdir)
        if r.returncode != 0:
            raise CompileFailure(_classify(r.stdout, generated_names), r.stdout[-6000:])
        d = _run([mb.binary, '--describe'], cwd=workdir, timeout=60)
        if d.returncode != 0:
            raise HarnessError('describe failed: ' + d.stdout[-2000:])
        for line in d.stdout.splitlines():
            w = line.split()
            if w and w[0] == 'STATIC':
                mb.static_facts[w[1]] = w[2] == '1'
        mb.compile_s = time.time() - t0
        return mb
    except BaseException:
        mb.cleanup()
        raise


def _classify(output, generated_names):
    """Attribute a compile failure by the file in which the FIRST error is located: a file returned by the builder
    => 'generated' (dznpy's); the mock model header, the glue or a harness header => harness.  An error inside a
    system header is attributed to the first generated or harness file named by the notes that follow it
    ('in instantiation of ... requested here', 'candidate ...', 'while substituting ...').  An undefined reference
    to a shell member is dznpy's too."""
    import re
    pos = re.compile(r'^([^\s:]+):(\d+):(\d+): (?:fatal )?(error|note|warning)')
    harness_files = ('glue.cc', 'harness.hh', 'harness.cc', 'kernel.h', 'simtypes.hh', 'mw_harness.cc')

    def owner(fname):
        if fname in generated_names:
            return 'generated'
        if fname in harness_files or fname.endswith('.hh') and '/' not in fname and fname not in generated_names:
            return 'harness:' + fname
        return None

    lines = output.splitlines()
    for i, line in enumerate(lines):
        if 'undefined reference' in line:
            sym = re.search(r"undefined reference to `([^']*)'", line)
            if sym and re.match(r'(__real_|__wrap_|sim_|__tsan|__asan|__ubsan|__sanitizer|harness::|Model::)', sym.group(1)):
                return 'harness:link:' + sym.group(1)[:60]   # the simulator's own link set-up, not dznpy's output
            return 'generated'
        m = pos.match(line.strip())
        if not m or m.group(4) != 'error':
            continue
        full = m.group(1)
        fname = os.path.basename(full)
        if fname == 'glue.cc' and re.search(r"no member named '(Provides|Requires|Get|FinalConstruct|Locator)\w*' in '", line):
            return 'generated'   # the shell lacks a public member every user relies on (accessor per exposed port, ...)
        if full.startswith('/usr/') or '/include/c++/' in full or '/lib/' in full:
            for follow in lines[i + 1:]:
                m2 = pos.match(follow.strip())
                if m2:
                    if m2.group(4) == 'error':
                        break
                    o = owner(os.path.basename(m2.group(1))) if not m2.group(1).startswith('/usr/') else None
                    if o:
                        return o
            return 'harness:system-header'
        return owner(fname) or ('harness:' + fname)
    return 'harness:unknown'


# ---------------------------------------------------------------------------------------------- running
class RunResult:
    __slots__ = ('id', 'exit', 'signal', 'records', 'notes', 'noise', 'end', 'sched', 'raw')

    def __init__(self, rid):
        self.id = rid
        self.exit = None
        self.signal = None
        self.records = []   # dicts: seq, task, kind, fields...
        self.notes = []
        self.noise = []     # sanitizer output and anything else
        self.end = {}
        self.sched = None
        self.raw = []


def parse_record(line):
    parts = line.split(' ')
    rec = {'seq': int(parts[0]), 'task': parts[1], 'kind': parts[2]}
    for kv in parts[3:]:
        if '=' in kv:
            k, v = kv.split('=', 1)
            rec[k] = v
    return rec


def _tokens(s):
    if s in (None, '-', ''):
        return []
    return [int(x) for x in s.split(',')]


def parse_output(text):
    results = []
    cur = None
    for line in text.splitlines():
        if line.startswith('=== RUN '):
            w = line.split()
            cur = RunResult(w[2])
            st = w[3]
            if st.startswith('exit='):
                cur.exit = int(st[5:])
            else:
                cur.signal = int(st.split('=')[1])
            results.append(cur)
        elif line.startswith('=== END'):
            cur = None
        elif cur is not None:
            if line and line[0].isdigit():
                try:
                    cur.records.append(parse_record(line))
                    cur.raw.append(line)
                    continue
                except (ValueError, IndexError):
                    pass
            if line.startswith('#SCHED'):
                cur.sched = [int(x) for x in line.split()[1:]]
            elif line.startswith('#END'):
                for kv in line.split()[1:]:
                    k, v = kv.split('=', 1)
                    cur.end[k] = v
                cur.raw.append(line.split(' ilhash')[0])
            elif line.startswith('#'):
                cur.notes.append(line)
                cur.raw.append(line)
            elif line.strip():
                cur.noise.append(line)
    return results


def run_tapes(mb: ModelBuild, tape_text: str, per_run_timeout=60, batch_timeout=1800):
    tape_path = os.path.join(mb.workdir, f'tape-{os.getpid()}.txt')
    with open(tape_path, 'w') as f:
        f.write(tape_text)
    env = dict(os.environ)
    env.update(SAN_ENV)
    try:
        p = subprocess.run([mb.binary, tape_path, str(per_run_timeout)], cwd=mb.workdir, stdout=subprocess.PIPE,
                           stderr=subprocess.STDOUT, timeout=batch_timeout, env=env)
    except subprocess.TimeoutExpired as exc:
        raise HarnessError(f'simulation batch timed out after {batch_timeout}s') from exc
    finally:
        try:
            os.unlink(tape_path)
        except OSError:
            pass
    if p.returncode != 0:
        raise HarnessError(f'simulation driver exited {p.returncode}: {p.stdout[-2000:]!r}')
    return parse_output(p.stdout.decode('utf-8', errors='replace'))
