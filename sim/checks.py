"""Check registry: tier budgets per property, replay, setup."""
import json
import sys

from . import checkA, engine, worldA
from .rng import Rng

ASSUME_A = [
    'the mock Dezyne runtime (/verif/cxx/dzn) and the mock Dezyne-generated model header conform to the Dezyne 2.17 C++ API the generated code targets (the dzn tool and runtime are not in the sandbox)',
    'JSON ASTs printed by the harness follow the grammar json_ast.py accepts (with the extra keys dzn parse emits as noise)',
    'pre-emption happens only at dispatcher post/exec, dzn::shell wait/return, ILog callbacks, pthread_mutex lock/unlock, harness-bound handlers and between workload ops',
    'identifier shapes avoid C++ keywords, names the generated code uses locally, and pairs of port names that collide after capitalising the first letter',
    'an encapsulee in the global namespace is compiled in one translation unit with its user (its anonymous-namespace rendering is C06, not claimed)',
    'sampling, not enumeration: a clean batch is evidence, not proof',
]

# property -> (profile, level, {tier: (models, runs per model)}, rule)
WORLD_A = {
    'C01': ('C01', 'exploration', {'quick': (48, 100), 'thorough': (480, 800)},
            'one sweep run (every reachable (port,event) once per direction) plus seeded random workloads per generated '
            '(model, configuration); distinct = distinct SHA-256 of the whole recorded history; non-trivial = at least one '
            'handler executed on another task than its caller (the event crossed the dispatcher)'),
    'C02': ('C02', 'exploration', {'quick': (48, 100), 'thorough': (480, 800)},
            'same generated models and workloads as C01, judged by the runtime-semantics oracle; distinct = distinct '
            'history digest; non-trivial = at least one event crossed the dispatcher'),
    'C04': ('C04', 'exploration', {'quick': (24, 300), 'thorough': (240, 3000)},
            'per generated multi-client (model, configuration): sequential histories of 5-40 claim/release/other/peer ops issued by '
            'one driver task for 1-4 registered clients, alternating fault-free histories and histories with rogue releases and '
            'denied claims; distinct = distinct history digest; non-trivial = at least one out-event was delivered to a client port'),
    'C11': ('C11', 'exploration', {'quick': (10, 600), 'thorough': (64, 20000)},
            'per generated multi-client all-MTS (model, configuration): 2-3 client threads performing claim/use/release cycles '
            'with retry, 1-2 peer threads raising requires out-events, under seeded schedules (uniform, sticky, PCT, round-robin, '
            'dispatcher stalls) in a ThreadSanitizer build whose only visible synchronisation is the program\'s own; '
            'distinct = distinct history digest; non-trivial = at least two claim windows opened in the run'),
    'C09': ('C09', 'fault_enumeration', {'quick': (48, 30), 'thorough': (480, 200)},
            'per generated (model, configuration): exhaustive product {dispatcher present?} x {runtime present?} x {0,1,2 other '
            'services} of the user locator (12 construction worlds x {component looks the runtime up itself, component does not}), then seeded workloads in the world where construction must '
            'succeed with the identity of the executing dispatcher checked on every closure; distinct = distinct history digest; '
            'every world is non-trivial (a construction fault or a dispatched workload)'),
    'C10': ('C10', 'fault_enumeration', {'quick': (48, 0), 'thorough': (1000, 0)},
            'per generated (model, configuration, 0-3 registered clients): the all-bound world (default and explicit parent) and '
            'exhaustively one world per event that the user or the component must bind, left unbound; distinct = distinct history '
            'digest; non-trivial = a world with a binding fault'),
}


def dispatch(args):
    what = args.what
    if what == 'setup':
        for flavor in ('asan', 'tsan'):
            worldA.ensure_runtime(flavor)
        print('setup ok')
        return engine.EXIT_OK
    if what == 'selftest-determinism':
        from . import selftest
        return selftest.determinism()
    if what == 'selftest-mutants':
        from . import mutants
        return mutants.run_catalogue()
    if args.replay:
        return replay(what, args.replay)
    tier, seed = engine.tier_and_seed(args)
    print(f'VERIF_SEED={seed} tier={tier} property={what} jobs={engine.jobs()}')
    if what in WORLD_A:
        profile, level, budgets, rule = WORLD_A[what]
        models, runs = budgets[tier]
        if args.models:
            models = args.models
        if args.runs:
            runs = args.runs
        pre = None
        if what == 'C11':
            pre = lambda rep: c11_mutexwrapped(rep, tier, seed)   # noqa: E731
        extra = None
        if what in ('C09', 'C10'):
            extra = {'exhaustive': False, 'exhaustive_per_model': True,
                     'exhaustive_note': 'the fault space named in the rule is enumerated completely for every generated model; models and configurations themselves are sampled'}
        return checkA.run_check(what, profile, level, tier, seed, models, runs, rule, ASSUME_A, extra=extra, pre_finish=pre)
    if what == 'C12':
        from . import checkC12
        u, h = (16, 60) if tier == 'quick' else (240, 400)
        return checkC12.run_check(tier, seed, args.models or u, args.runs or h)
    if what == 'C16':
        from . import checkC16
        u, h = (24, 120) if tier == 'quick' else (400, 500)
        return checkC16.run_check(tier, seed, args.models or u, args.runs or h)
    if what == 'C08':
        from . import checkC08
        rng = Rng(seed, 'hashseeds')
        if tier == 'quick':
            return checkC08.run_check(tier, seed, args.models or 120, [0, 1, 2, 3, 4, 5, 6, 7], 4)
        hs = list(range(24)) + sorted({rng.below(4294967295) for _ in range(24)})
        return checkC08.run_check(tier, seed, args.models or 1500, hs, 5)
    print(f'HARNESS-ERROR: unknown check {what}')
    return engine.EXIT_HARNESS


def c11_mutexwrapped(rep, tier, seed):
    """Second sub-world of C11: the generated MutexWrapped helper on its own (one binary per namespace prefix)."""
    from . import checkMW
    n = 1500 if tier == 'quick' else 40000
    results = engine.run_parallel(checkMW.worker, [{'seed': seed, 'pi': pi, 'n': n} for pi in range(len(checkMW.PREFIXES))])
    runs = steps = 0
    digests, nontrivial, ilh = set(), set(), set()
    probes = {}
    sample = None
    for status, s in results:
        if status != 'ok':
            rep.harness_errors.append(s)
            continue
        runs += s['runs']
        steps += s['steps']
        digests.update(s['digests'])
        nontrivial.update(s['nontrivial'])
        ilh.update(s['ilhashes'])
        for k, v in s['probes'].items():
            probes[k] = probes.get(k, 0) + v
        sample = sample or s['sample']
        for v in s['violations']:
            rep.add_violation(v['class'], v['detail'], v['replay'])
    cov = rep.coverage
    cov['mutexwrapped_world'] = {'runs': runs, 'logical_steps': steps, 'distinct_histories': len(digests),
                                 'runs_with_lock_contention': len(nontrivial), 'distinct_interleavings': len(ilh), 'probes': probes,
                                 'rule': '2-3 threads, 1-5 critical sections each (read-yield-write increments), released by reset(), '
                                         'scope exit (also by exception), moved unique_ptr, or reset followed by re-acquisition; a second MutexWrapped<T> instance used nested inside the first and alone; one TSan binary per namespace prefix'}
    cov['evaluations'] = cov.get('evaluations', 0) + runs
    cov['distinct_nontrivial'] = cov.get('distinct_nontrivial', 0) + len(nontrivial)
    if sample:
        cov['samples'] = list(cov.get('samples', [])) + [sample]


def replay(prop, path):
    from . import profiles, tapes
    rp = json.load(open(path, encoding='utf-8'))
    want = rp['violation']['class']
    if rp.get('world') == 'B' and rp.get('check') == 'C16':
        from . import checkC16
        return checkC16.replay(path)
    if rp.get('world') == 'B' and rp.get('check') == 'C12':
        from . import checkC12
        return checkC12.replay(path)
    if rp.get('world') == 'MW':
        from . import checkMW
        return checkMW.replay(path)
    if rp.get('world') == 'C':
        from . import checkC08
        return checkC08.replay(path)
    if rp.get('world') == 'A':
        prof = profiles.PROFILES[rp['profile']]
        try:
            mb, _ = checkA.build_model(rp['spec'], rp['cfgspec'], rp['json_ast'].encode('utf-8'), rp['flavor'], False)
        except worldA.GenerationFailure as gf:
            print(f'VIOLATION property={prop} replay={path}')
            print(f'  class=generation-failure detail={gf}')
            return engine.EXIT_VIOLATION
        except worldA.CompileFailure as cf:
            if cf.where == 'generated':
                print(f'VIOLATION property={prop} replay={path}')
                print(f'  class=compile-failure detail={checkA._first_error(cf.diagnostics)}')
                return engine.EXIT_VIOLATION
            raise
        try:
            found = []
            for name, ok in sorted(mb.static_facts.items()):
                found += prof['judge_static'](mb, name, ok)
            if rp.get('run'):
                res = worldA.run_tapes(mb, tapes.render(rp['run']))[0]
                found += prof['judge'](mb, rp['run'], res)
                same = rp.get('history') is None or res.raw[:400] == rp['history']
                print(f'replayed history identical to recorded history: {same}')
        finally:
            checkA.release_model(mb)
        for v in found:
            print(f'  found class={v.cls} detail={v.detail}')
        if any(v.cls == want for v in found):
            print(f'VIOLATION property={prop} replay={path}')
            return engine.EXIT_VIOLATION
        if found:
            print(f'VIOLATION property={prop} replay={path}')
            print(f'  (class differs from the recorded {want})')
            return engine.EXIT_VIOLATION
        print(f'replay {path}: property held (recorded violation {want} not reproduced on this tree)')
        return engine.EXIT_OK
    print('HARNESS-ERROR: unknown replay format')
    return engine.EXIT_HARNESS
