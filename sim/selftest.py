"""Self tests of the simulator: determinism (same seed => same histories, independent of worker count and of the
harness interpreter's hash seed) and sensitivity (catalogue of planted defects, each must be reported; refactors
that preserve the properties must stay green)."""
import json
import os
import shutil
import subprocess
import sys
import tempfile

from . import engine

CHECK = os.path.join(engine.VERIF, 'check.py')

SMALL = {
    'C01': ['--models', '6', '--runs', '30'], 'C02': ['--models', '6', '--runs', '30'], 'C04': ['--models', '4', '--runs', '60'],
    'C09': ['--models', '6', '--runs', '10'], 'C10': ['--models', '8'], 'C11': ['--models', '3', '--runs', '120'],
    'C08': ['--models', '24'], 'C12': ['--models', '3', '--runs', '20'], 'C16': ['--models', '4', '--runs', '40'],
}


def _run(prop, seed, jobs, hashseed, extra_env=None):
    tmp = tempfile.mkdtemp(prefix='verif-selftest-')
    env = dict(os.environ, VERIF_SEED=str(seed), VERIF_JOBS=str(jobs), VERIF_EVIDENCE_DIR=tmp, VERIF_REPLAY_DIR=tmp,
               PYTHONHASHSEED=str(hashseed), VERIF_KEEP_HASHSEED='1')
    if extra_env:
        env.update(extra_env)
    try:
        p = subprocess.run([sys.executable, CHECK, prop, '--tier', 'quick'] + SMALL[prop], stdout=subprocess.PIPE, stderr=subprocess.STDOUT,
                           env=env, timeout=3000, text=True)
        ev = os.path.join(tmp, f'{prop}.json')
        digest = json.load(open(ev))['coverage'].get('run_digest') if os.path.exists(ev) else None
        return p.returncode, digest, p.stdout[-1500:]
    finally:
        shutil.rmtree(tmp, ignore_errors=True)


def determinism(props=None, seeds=(11, 12, 13)):
    props = props or sorted(SMALL)
    failures = 0
    for prop in props:
        for seed in seeds:
            variants = [(1, 0), (16, 0), (16, 7919), (5, 424242)]
            results = [_run(prop, seed, j, hs) for j, hs in variants]
            digests = {d for _, d, _ in results}
            rcs = {rc for rc, _, _ in results}
            ok = len(digests) == 1 and None not in digests and rcs == {0}
            print(f"determinism {prop} seed={seed}: {'identical' if ok else 'DIVERGED'} digest={sorted(str(d) for d in digests)} rc={sorted(rcs)}")
            if not ok:
                failures += 1
                for (j, hs), (rc, d, out) in zip(variants, results):
                    print(f'   jobs={j} PYTHONHASHSEED={hs}: rc={rc} digest={d}')
                    if rc != 0:
                        print(out)
    print('determinism self-test:', 'OK' if not failures else f'{failures} FAILED')
    return engine.EXIT_OK if not failures else engine.EXIT_HARNESS
