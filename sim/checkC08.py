"""World C (C08): the simulator owns the interpreter's hash seed, the construction order of every set of the
configuration and the process identity; the output must be byte-identical across all of them."""
import difflib
import json
import os
import subprocess
import sys

import orjson

from . import cfggen, engine, modelgen
from .rng import Rng, derive

CHILD = os.path.join(os.path.dirname(os.path.abspath(__file__)), 'child_build.py')


def permutations_of(rng: Rng, cfgspec, n):
    """Variants of the configuration spec that denote EQUAL configurations: every explicit name list (= set insertion
    order) is permuted."""
    variants = [cfgspec]
    lists = [(side, sem) for side in ('provides', 'requires') for sem in ('sts', 'mts') if isinstance(cfgspec[side][sem], list)]
    for k in range(n - 1):
        v = json.loads(json.dumps(cfgspec))
        for side, sem in lists:
            lst = v[side][sem]
            v[side][sem] = list(reversed(lst)) if k == 0 else rng.shuffle(lst)
        variants.append(v)
    return variants


def gen_case(seed, i, nperm):
    rng = Rng(derive(seed, 'C08', i))
    spec = modelgen.with_generator_local_names(Rng(rng.state, 'locals'), modelgen.gen_spec(rng.fork('spec'), profile='many_ports'), 20)
    cfg = cfggen.gen_cfg(rng.fork('cfg'), spec, explicit_bias=True)
    if rng.chance(25):
        # file names that are not C++ identifiers (the struct name derived from them is C06's business, not C08's)
        odd = rng.choice(['my-toaster', 'Toaster.v2', '3d printer', 'naïve_model', 'a+b', 'x' * 40])
        cfg['dezyne_filename'] = rng.choice(['', 'models/', '/abs/dir.with.dots/']) + odd + rng.choice(['.dzn', '.json', ''])
    if rng.chance(20):
        # texts that are not in Unicode normal form C (decomposed accents, compatibility singletons): the content hash is the
        # MD5 of the UTF-8 bytes of the contents as they are, not of some normalisation of them
        cfg['copyright'] = rng.choice(['Copyright Cafe\u0301 Ame\u0301lie \u212B 2024', 'nai\u0308ve \u2126 \ufb01rm', 'A\u030a\u0301 / \u1e9b\u0323'])
    kind = 'valid'
    if rng.chance(15):
        # failing configuration: explicit sets naming ports the component does not have (error text must be stable too)
        side = rng.choice(['provides', 'requires'])
        sem = rng.choice(['sts', 'mts'])
        if isinstance(cfg[side][sem], list):
            cfg[side][sem] = cfg[side][sem] + [f'ghost{k}_{rng.below(1000)}' for k in range(rng.between(2, 4))]
            kind = 'unknown-names'
    js = orjson.dumps(modelgen.to_json_ast(spec, rng.fork('json'))).decode('utf-8')
    return {'id': i, 'kind': kind, 'json_ast': js, 'cfgspecs': permutations_of(rng.fork('perm'), cfg, nperm)}


PROCESS_KINDS = ['plain', 'model-files-exist', 'model-files-are-symlinks', 'other-locale-home-and-depth', 'optimised-interpreter']


def process_kind(hashseed):
    """"The process it runs in" is varied together with the hash seed (a pure function of it, so that a replay re-creates
    the same process): working directory, what the file system shows at the configured model file name (nothing / a
    regular file / a symbolic link to a file of another name), locale, HOME, TZ, interpreter options (-OO -B -X dev)."""
    return PROCESS_KINDS[hashseed % len(PROCESS_KINDS)]


def _prepare_process_dir(root, kind, cases):
    cwd = os.path.join(root, 'w')
    if kind == 'other-locale-home-and-depth':
        cwd = os.path.join(root, 'deeply', 'nested.dir', 'Work Space')
    os.makedirs(cwd)
    if kind in ('model-files-exist', 'model-files-are-symlinks'):
        n = 0
        for c in cases:
            for cfg in c['cfgspecs'][:1]:
                name = cfg['dezyne_filename']
                if not name or os.path.isabs(name) or name.endswith('/'):
                    continue
                path = os.path.normpath(os.path.join(cwd, name))
                if not path.startswith(root + os.sep) or os.path.lexists(path):
                    continue
                os.makedirs(os.path.dirname(path), exist_ok=True)
                n += 1
                if kind == 'model-files-exist':
                    with open(path, 'w', encoding='utf-8') as f:
                        f.write('{}')
                else:
                    target = os.path.join(root, f'Elsewhere_{n}.dzn')
                    with open(target, 'w', encoding='utf-8') as f:
                        f.write('{}')
                    os.symlink(target, path)
    return cwd


def run_child(hashseed, cases, keep_contents=False, timeout=900):
    import shutil
    import tempfile
    env = dict(os.environ)
    env['PYTHONHASHSEED'] = str(hashseed)
    kind = process_kind(hashseed)
    root = os.path.realpath(tempfile.mkdtemp(prefix='verif-c08-proc-', dir=engine.SCRATCH_ROOT))
    try:
        cwd = _prepare_process_dir(root, kind, cases)
        if kind == 'other-locale-home-and-depth':
            env.update({'LC_ALL': 'C', 'LANG': 'C', 'PYTHONUTF8': '0', 'PYTHONCOERCECLOCALE': '0', 'TZ': 'Pacific/Kiritimati', 'HOME': cwd,
                        'USER': 'somebody-else', 'COLUMNS': '37'})   # a genuinely non-UTF-8 process (preferred encoding ASCII)
        req = {'mode': 'build', 'keep_contents': keep_contents,
               'cases': [{'id': c['id'], 'json_ast': c['json_ast'], 'cfgspecs': c['cfgspecs']} for c in cases]}
        # interpreter options are properties of the process as well: -OO strips asserts and docstrings, -B/-s/-X dev change
        # nothing a pure function of (model, configuration) may depend on
        flags = ['-OO', '-B', '-X', 'dev'] if kind == 'optimised-interpreter' else []
        p = subprocess.run([sys.executable] + flags + [CHILD], input=json.dumps(req).encode('utf-8'), stdout=subprocess.PIPE,
                           stderr=subprocess.PIPE, env=env, timeout=timeout, cwd=cwd)
    finally:
        shutil.rmtree(root, ignore_errors=True)
    if p.returncode != 0:
        raise RuntimeError(f'child (PYTHONHASHSEED={hashseed}, process {kind}) failed: {p.stderr.decode()[-2000:]}')
    return json.loads(p.stdout)


def _child_job(job):
    hashseed, cases = job
    return hashseed, run_child(hashseed, cases)


def signature(result):
    """What the property speaks about: file names, contents, content hashes of a successful build.  A failing build
    yields no files; only the exception TYPE is part of the signature (message wording may legitimately embed a set)."""
    if 'error' in result:
        return ['error', result['error'][0]]
    return [[f[0], f[1], f[2]] for f in result['files']]


def first_difference(a, b):
    if 'error' in a or 'error' in b:
        return f"{a.get('error')} vs {b.get('error')}"
    for fa, fb in zip(a['files'], b['files']):
        if fa[0] != fb[0]:
            return f'file names differ: {fa[0]} vs {fb[0]}'
        if fa[1] != fb[1]:
            if fa[4] is not None and fb[4] is not None:
                for la, lb in zip(fa[4].splitlines(), fb[4].splitlines()):
                    if la != lb:
                        return f'{fa[0]}: "{la.strip()}" vs "{lb.strip()}"'
            return f'{fa[0]}: contents differ'
    return 'number of files differs'


def run_check(tier, seed, n_cases, hashseeds, nperm):
    rep = engine.Report('C08', 'exploration', tier, seed)
    rep.assumptions = ['equal inputs = the same JSON AST text and configurations whose sets have equal members; '
                       'hash seeds are sampled, not enumerated', 'JSON ASTs come from the harness generator, not from dzn parse']
    cases = [gen_case(seed, i, nperm) for i in range(n_cases)]
    results = engine.run_parallel(_child_job, [(hs, cases) for hs in hashseeds], hang_s=1200)
    per_seed = {}
    for status, r in results:
        if status != 'ok':
            rep.harness_errors.append(r)
            continue
        hs, payload = r
        per_seed[hs] = {c['id']: c['results'] for c in payload['out']}
    if rep.harness_errors:
        return rep.finish()
    evaluations = 0
    error_text_varies = 0
    order_sensitive = set()
    distinct = set()
    hash_checked = 0
    samples = []
    for case in cases:
        ref_key = (hashseeds[0], 0)
        ref = per_seed[hashseeds[0]][case['id']][0]
        ref_sig = signature(ref)
        orders_seen = set()
        violated = False
        messages = set()
        for hs in hashseeds:
            for pi, res in enumerate(per_seed[hs][case['id']]):
                evaluations += 1
                orders_seen.add(json.dumps(res['set_orders']))
                if 'error' in res:
                    messages.add(res['error'][1])
                if 'files' in res:
                    for f in res['files']:
                        hash_checked += 1
                        if not f[3] and not violated:
                            violated = True
                            rep.add_violation('purity:content-hash-is-not-md5-of-utf8-contents', f'{f[0]}: hash={f[2]}',
                                              {'world': 'C', 'case': case, 'pairs': [[hs, pi], [hs, pi]]})
                if signature(res) != ref_sig and not violated:
                    violated = True
                    # minimise: prefer a pair that differs in one dimension only
                    a, b = ref_key, (hs, pi)
                    for hs2 in hashseeds:
                        for pj, res2 in enumerate(per_seed[hs2][case['id']]):
                            if signature(res2) != signature(res) and (hs2 == hs or pj == pi):
                                a = (hs2, pj)
                                break
                    detail_cases = [dict(case)]
                    ra = run_child(a[0], detail_cases, keep_contents=True)['out'][0]['results'][a[1]]
                    rb = run_child(b[0], detail_cases, keep_contents=True)['out'][0]['results'][b[1]]
                    diff = first_difference(ra, rb)
                    cls = 'purity:outcome-depends-on-hash-seed-set-order-or-process' if 'error' in ra or 'error' in rb else \
                        'purity:output-depends-on-hash-seed-set-order-or-process'
                    rep.add_violation(cls, f'PYTHONHASHSEED={a[0]}/order#{a[1]}/process {process_kind(a[0])} vs PYTHONHASHSEED={b[0]}/order#{b[1]}/process {process_kind(b[0])}: {diff}',
                                      {'world': 'C', 'case': case, 'pairs': [list(a), list(b)], 'difference': diff})
        if len(messages) > 1:
            error_text_varies += 1
        if len(orders_seen) > 1:
            order_sensitive.add(case['id'])
            distinct.add(json.dumps(ref_sig))
        if len(samples) < 2 and len(orders_seen) > 1:
            samples.append({'case': case['id'], 'kind': case['kind'],
                            'configuration': {k: case['cfgspecs'][0][k] for k in ('provides', 'requires', 'multiclient', 'origin')},
                            'permuted_orders': [[v['provides'], v['requires']] for v in case['cfgspecs'][1:3]],
                            'set_iteration_orders_seen': sorted(orders_seen)[:4],
                            'result': ref_sig if ref_sig and ref_sig[0] == 'error' else [s[0] for s in ref_sig]})
    rep.coverage = {
        'evaluations': evaluations, 'distinct_nontrivial': len(distinct),
        'rule': 'case = generated (model, configuration biased to explicit name sets with 2-6 names, 15% naming unknown ports); '
                'evaluation = one build of one case in one child interpreter with one PYTHONHASHSEED and one construction order of '
                'the sets; non-trivial = cases whose set iteration order ACTUALLY differed between evaluations (reach probe), '
                'distinct by output signature',
        'samples': samples, 'cases': n_cases, 'hash_seeds': list(hashseeds), 'orders_per_case': nperm,
        'order_sensitive_cases': len(order_sensitive), 'content_hashes_checked_against_md5': hash_checked,
        'process_kinds': {k: sum(1 for hs in hashseeds if process_kind(hs) == k) for k in PROCESS_KINDS},
        'fault_kinds_fired': {'hash_seed_changed': len(hashseeds) - 1, 'set_construction_order_permuted': n_cases * (nperm - 1),
                              'process_environment_changed (cwd, file system at the model file name, locale, HOME, TZ)':
                                  sum(1 for hs in hashseeds if process_kind(hs) != process_kind(hashseeds[0])),
                              'configuration_with_unknown_port_names': sum(1 for c in cases if c['kind'] != 'valid')},
        'probes': {'set_iteration_order_actually_differed': len(order_sensitive),
                   'failing_builds_whose_error_text_varied_between_evaluations (not judged: the statement is about files)': error_text_varies},
        'simulated_time': 'not applicable (no clock)', 'distinct_interleavings': 0,
        'seeds': f'VERIF_SEED={seed}',
        'run_digest': __import__('hashlib').sha256(json.dumps([[c['id'], [[signature(r) for r in per_seed[hs][c['id']]] for hs in hashseeds]] for c in cases]).encode()).hexdigest(),
    }
    return rep.finish()


def replay(path):
    rp = json.load(open(path))
    case = rp['case']
    (sa, pa), (sb, pb) = rp['pairs']
    ra = run_child(sa, [case], keep_contents=True)['out'][0]['results'][pa]
    rb = run_child(sb, [case], keep_contents=True)['out'][0]['results'][pb]
    bad = [f for r in (ra, rb) if 'files' in r for f in r['files'] if not f[3]]
    if signature(ra) != signature(rb) or bad:
        print('  difference: ' + (first_difference(ra, rb) if signature(ra) != signature(rb) else f'hash mismatch {bad[0][0]}'))
        print(f"VIOLATION property=C08 replay={path}")
        return engine.EXIT_VIOLATION
    print(f'replay {path}: outputs identical (property held)')
    return engine.EXIT_OK
