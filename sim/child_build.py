"""Child interpreter used by World C (C08) and as the fresh-process reference of World B (C12, C16).

stdin: JSON {"cases": [{"id", "json_ast", "cfgspecs": [cfgspec, ...]}], "mode": "build"|"parse"|"support"}
stdout: JSON list of results.  The interpreter's hash seed is whatever the parent put into PYTHONHASHSEED.
"""
import hashlib
import json
import os
import sys

sys.path.insert(0, os.path.dirname(os.path.dirname(os.path.abspath(__file__))))
sys.dont_write_bytecode = True

from sim import cfggen, dznbuild  # noqa: E402
from sim.snapshot import snapshot  # noqa: E402


def set_orders(cfgspec):
    """Reach probe: the iteration order of every explicit name set as this interpreter sees it."""
    orders = []
    for side in ('provides', 'requires'):
        for sem in ('sts', 'mts'):
            sel = cfgspec[side][sem]
            if isinstance(sel, list):
                s = set()
                for n in sel:
                    s.add(n)
                orders.append(list(s))
    return orders


def build_one(json_ast, cfgspec):
    dznbuild.ensure_repo_dznpy()
    from dznpy.json_ast import DznJsonAst
    from dznpy.adv_shell import Builder
    try:
        fc = DznJsonAst(json_ast.encode('utf-8')).process()
        cfg = cfggen.build_configuration(cfgspec, fc)
        result = Builder().build(cfg)
    except Exception as exc:  # pylint: disable=broad-except
        return {'error': [type(exc).__module__ + '.' + type(exc).__name__, str(exc)]}
    files = []
    for f in result.files:
        md5 = hashlib.md5(f.contents.encode('utf-8')).hexdigest()
        files.append([f.filename, hashlib.sha256(f.contents.encode('utf-8')).hexdigest(), f.hash, md5 == f.hash, f.contents])
    return {'files': files}


def parse_one(json_ast):
    dznbuild.ensure_repo_dznpy()
    from dznpy.json_ast import DznJsonAst
    try:
        parser = DznJsonAst() if json_ast is None else DznJsonAst(json_ast.encode('utf-8'))
    except Exception as exc:  # pylint: disable=broad-except
        return {'construct_error': [type(exc).__module__ + '.' + type(exc).__name__, str(exc)]}
    try:
        fc = parser.process()
    except Exception as exc:  # pylint: disable=broad-except
        return {'error': [type(exc).__module__ + '.' + type(exc).__name__, str(exc)]}
    return {'snapshot': snapshot(fc)}


def support_one(prefix):
    dznbuild.ensure_repo_dznpy()
    from dznpy.scoping import NamespaceIds
    from dznpy.support_files import strict_port, ilog, misc_utils, meta_helpers, multi_client_selector, mutex_wrapped
    ns = None if prefix is None else NamespaceIds(list(prefix))
    out = []
    for mod in (strict_port, ilog, misc_utils, meta_helpers, multi_client_selector, mutex_wrapped):
        gc = mod.create_header(ns)
        out.append([gc.filename, gc.contents])
    return {'files': out}


def main():
    # the library prints diagnostics (e.g. "parse_types: skipping item ...") to stdout: keep the protocol channel clean
    proto = os.fdopen(os.dup(1), 'w')
    os.dup2(2, 1)
    sys.stdout = sys.stderr
    req = json.load(sys.stdin)
    mode = req.get('mode', 'build')
    keep_contents = req.get('keep_contents', False)
    out = []
    for case in req['cases']:
        if mode == 'build':
            res = []
            for cfgspec in case['cfgspecs']:
                r = build_one(case['json_ast'], cfgspec)
                if not keep_contents and 'files' in r:
                    for f in r['files']:
                        f[4] = None
                r['set_orders'] = set_orders(cfgspec)
                res.append(r)
            out.append({'id': case['id'], 'results': res})
        elif mode == 'parse':
            out.append({'id': case['id'], 'result': parse_one(case['json_ast'])})
        elif mode == 'support':
            out.append({'id': case['id'], 'result': support_one(case['prefix'])})
    json.dump({'hashseed': os.environ.get('PYTHONHASHSEED'), 'pid_independent': True, 'out': out}, proto)
    proto.flush()


if __name__ == '__main__':
    main()
