"""C11 (b): the generated MutexWrapped<T> header used directly by baton-scheduled threads in a TSan build."""
import hashlib
import json
import os
import shutil
import tempfile

from . import dznbuild, engine, oracles, tapes, worldA
from .rng import Rng, derive

PREFIXES = [None, ['Other'], ['Other', 'Project'], ['a', 'B', 'c9'], ['Other_Project'], ['a_B', 'c9']]


def build_binary(prefix):
    dznbuild.ensure_repo_dznpy()
    from dznpy.scoping import NamespaceIds
    from dznpy.support_files import mutex_wrapped
    gc = mutex_wrapped.create_header(None if prefix is None else NamespaceIds(list(prefix)))
    kobj, _ = worldA.ensure_runtime('tsan')
    workdir = tempfile.mkdtemp(prefix='verif-MW-', dir=engine.SCRATCH_ROOT)
    try:
        with open(os.path.join(workdir, gc.filename), 'w') as f:
            f.write(gc.contents)
        ns = '::' + '::'.join((prefix or []) + ['Dzn'])
        cmd = [worldA.CXX] + worldA.COMMON + worldA.FLAVORS['tsan'] + ['-I', worldA.CXX_DIR, '-I', workdir,
               f'-DMW_HEADER="{gc.filename}"', f'-DMW_NS={ns}', os.path.join(worldA.CXX_DIR, 'mw_harness.cc'), kobj] + worldA.LINK + ['-o', 'sim']
        r = worldA._run(cmd, cwd=workdir)
        if r.returncode != 0:
            first = next((l for l in r.stdout.splitlines() if 'error' in l), '')
            where = 'generated' if gc.filename in first else 'harness'
            raise worldA.CompileFailure(where, r.stdout[-4000:])
        return workdir, gc.contents
    except BaseException:
        shutil.rmtree(workdir, ignore_errors=True)
        raise


def gen_run(rng: Rng, rid):
    run = {'id': str(rid), 'seed': 1, 'policy': 0, 'p1': 0, 'p2': 0, 'stall_from': 0, 'stall_len': 0, 'budget': 50000, 'sched': None, 'tasks': []}
    for k in range(rng.between(2, 3)):
        secs = [[rng.below(7), rng.between(1, 3), rng.between(0, 3)] for _ in range(rng.between(1, 5))]
        run['tasks'].append({'name': f't{k}', 'sections': secs})
    tapes.random_sched(rng, run, 60)
    run['stall_len'] = 0
    return run


def render(run):
    o = [f"RUN {run['id']}", f"CFG {run['seed'] & ((1 << 63) - 1)} {run['policy']} {run['p1']} {run['p2']} 0 0 {run['budget']} 1"]
    if run.get('sched') is not None:
        o.append('X ' + ' '.join(str(x) for x in run['sched']))
    for t in run['tasks']:
        o.append(f"TASK {t['name']}")
        for s in t['sections']:
            o.append(f'S {s[0]} {s[1]} {s[2]}')
    o.append('END')
    return '\n'.join(o) + '\n'


def judge(run, res):
    v = oracles.basic(res, expect_quiesced=False)
    if v:
        return v
    out = []
    fin = [r for r in res.records if r['kind'] == 'final']
    if not fin:
        return [oracles.Violation('mutexwrapped:no-final-record', '')]
    f = fin[0]
    if int(f['max_occupancy']) > 1 or int(f['max_occupancy2']) > 1 or any(r['kind'] in ('occupancy', 'occupancy2') for r in res.records):
        out.append(oracles.Violation('mutexwrapped:two-threads-inside', f"max occupancy {f['max_occupancy']} / second instance {f['max_occupancy2']}"))
    if not (f['value'] == f['increments'] == f['writes']) or not (f['value2'] == f['increments2'] == f['writes2']):
        out.append(oracles.Violation('mutexwrapped:lost-update', f"value={f['value']} writes={f['writes']} increments={f['increments']} / "
                                                                 f"second instance value={f['value2']} writes={f['writes2']} increments={f['increments2']}"))
    return out


class _Bin:
    def __init__(self, workdir):
        self.workdir = workdir
        self.binary = os.path.join(workdir, 'sim')


def _exec(workdir, runs):
    return worldA.run_tapes(_Bin(workdir), ''.join(render(r) for r in runs))


def shrink(workdir, run, want, budget=80):
    spent = [0]

    def bad(cand):
        if spent[0] >= budget:
            return None
        spent[0] += 1
        res = _exec(workdir, [cand])[0]
        try:
            vs = judge(cand, res)
        except worldA.HarnessError:
            return None
        return res if any(x.cls == want for x in vs) else None

    best = json.loads(json.dumps(run))
    res = bad(best)
    if res is None:
        return None, None
    for ti in range(len(best['tasks']) - 1, -1, -1):
        if len(best['tasks']) <= 1:
            break
        cand = json.loads(json.dumps(best))
        del cand['tasks'][ti]
        r = bad(cand)
        if r is not None:
            best, res = cand, r
    for ti in range(len(best['tasks'])):
        si = len(best['tasks'][ti]['sections']) - 1
        while si >= 0:
            cand = json.loads(json.dumps(best))
            del cand['tasks'][ti]['sections'][si]
            r = bad(cand)
            if r is not None:
                best, res = cand, r
            si -= 1
    if res.sched:
        cand = json.loads(json.dumps(best))
        cand['sched'] = list(res.sched)
        r = bad(cand)
        if r is not None:
            best, res = cand, r
    return best, res


def worker(job):
    seed, pi, n = job['seed'], job['pi'], job['n']
    prefix = PREFIXES[pi]
    summary = {'runs': 0, 'steps': 0, 'digests': [], 'nontrivial': [], 'ilhashes': [], 'violations': [], 'probes': {}, 'sample': None}
    try:
        workdir, header = build_binary(prefix)
    except worldA.CompileFailure as cf:
        if cf.where == 'generated':
            summary['violations'].append({'class': 'compile-failure', 'detail': cf.diagnostics[-300:],
                                          'replay': {'world': 'MW', 'prefix': prefix, 'run': None, 'diagnostics': cf.diagnostics}})
            return summary
        raise
    try:
        rng = Rng(derive(seed, 'C11mw', pi))
        runs = [gen_run(rng.fork('r', i), f'm{pi}-{i}') for i in range(n)]
        seen = set()

        def executed():
            for start in range(0, len(runs), 500):
                part = runs[start:start + 500]
                yield from zip(part, _exec(workdir, part))

        for run, res in executed():
            vs = judge(run, res)
            summary['runs'] += 1
            summary['steps'] += int(res.end.get('steps', 0))
            d = hashlib.sha256('\n'.join(res.raw).encode()).hexdigest()[:16]
            summary['digests'].append(d)
            contended = int(res.end.get('contended', 0))
            if contended:
                summary['nontrivial'].append(d)
                summary['probes']['lock_contended'] = summary['probes'].get('lock_contended', 0) + contended
            for r in res.records:
                if r['kind'] == 'section':
                    k = 'release_by_' + r['mode']
                    summary['probes'][k] = summary['probes'].get(k, 0) + 1
            if 'ilhash' in res.end:
                summary['ilhashes'].append(res.end['ilhash'])
            if summary['sample'] is None and contended:
                summary['sample'] = {'world': 'MutexWrapped', 'prefix': prefix, 'tasks': run['tasks'], 'history_head': res.raw[:12]}
            for v in vs:
                if v.cls in seen:
                    continue
                seen.add(v.cls)
                small, sres = shrink(workdir, run, v.cls)
                if small is None:
                    raise worldA.HarnessError(f'MutexWrapped run {run["id"]}: violation {v.cls} did not reproduce')
                summary['violations'].append({'class': v.cls, 'detail': v.detail,
                                              'replay': {'world': 'MW', 'prefix': prefix, 'run': small, 'history': sres.raw[:200], 'noise': sres.noise[:40]}})
    finally:
        shutil.rmtree(workdir, ignore_errors=True)
    return summary


def replay(path):
    rp = json.load(open(path))
    try:
        workdir, _ = build_binary(rp['prefix'])
    except worldA.CompileFailure as cf:
        if cf.where == 'generated':
            print(f'VIOLATION property=C11 replay={path}')
            return engine.EXIT_VIOLATION
        raise
    try:
        res = _exec(workdir, [rp['run']])[0]
        vs = judge(rp['run'], res)
    finally:
        shutil.rmtree(workdir, ignore_errors=True)
    for v in vs:
        print(f'  found class={v.cls} detail={v.detail}')
    if vs:
        print(f'VIOLATION property=C11 replay={path}')
        return engine.EXIT_VIOLATION
    print(f'replay {path}: property held')
    return engine.EXIT_OK
