"""Canonical deep structural snapshots of arbitrary object graphs (JSON-able, hash-seed independent).

Does not rely on __eq__, __repr__ or __hash__ of the snapshotted objects: it walks instance dictionaries.
Sets are sorted by their canonical form; dict insertion order is kept (it is observable)."""
import enum
import json


def snapshot(obj, _active=None):
    if _active is None:
        _active = []
    if obj is None or isinstance(obj, (bool, int, str)):
        return obj
    if isinstance(obj, float):
        return {'$float': repr(obj)}
    if isinstance(obj, bytes):
        return {'$bytes': obj.hex()}
    if isinstance(obj, enum.Enum):
        return {'$enum': type(obj).__name__ + '.' + obj.name}
    if id(obj) in _active:
        return {'$cycle': len(_active) - _active.index(id(obj))}
    _active.append(id(obj))
    try:
        if isinstance(obj, list):
            return {'$list': [snapshot(x, _active) for x in obj]}
        if isinstance(obj, tuple):
            return {'$tuple': [snapshot(x, _active) for x in obj]}
        if isinstance(obj, (set, frozenset)):
            items = [snapshot(x, _active) for x in obj]
            return {'$set': sorted(items, key=lambda x: json.dumps(x, sort_keys=True))}
        if isinstance(obj, dict):
            return {'$dict': [[snapshot(k, _active), snapshot(v, _active)] for k, v in obj.items()]}
        if isinstance(obj, type):
            return {'$type': obj.__module__ + '.' + obj.__qualname__}
        if callable(obj) and not hasattr(obj, '__dict__'):
            return {'$callable': getattr(obj, '__qualname__', '?')}
        fields = {}
        if hasattr(obj, '__dict__'):
            for k in sorted(vars(obj)):
                fields[k] = snapshot(vars(obj)[k], _active)
        for k in getattr(type(obj), '__slots__', ()):
            if hasattr(obj, k):
                fields[k] = snapshot(getattr(obj, k), _active)
        return {'$obj': type(obj).__module__ + '.' + type(obj).__qualname__, 'fields': fields}
    finally:
        _active.pop()


def digest(obj) -> str:
    import hashlib
    return hashlib.sha256(json.dumps(snapshot(obj), sort_keys=True).encode('utf-8')).hexdigest()[:20]
