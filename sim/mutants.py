"""Sensitivity self-test: a catalogue of planted defects (own mutants + the seeded changes of /verif/seeded), each of
which must be reported by the check of its property within the quick budget, and property-preserving refactors that
must stay green.  Everything happens in scratch copies of /repo/src under /tmp which are removed afterwards."""
import glob
import json
import os
import shutil
import subprocess
import sys
import tempfile

from . import engine

CHECK = os.path.join(engine.VERIF, 'check.py')
PROC = 'adv_shell/core/processing.py'
SEL = 'support_files/multi_client_selector.py'
MW = 'support_files/mutex_wrapped.py'

CALL_ARGS = "call_arguments = ', '.join([arg.name for arg in event.signature.formals.elements])"

# (name, [checks that must report], file, old, new, occurrence index)
MUTANTS = [
    ('c01-crosswired-out-event', ['C01'], PROC,
     "f'std::ref({port.accessor_target}.out.{event.name});'",
     "f'std::ref({port.accessor_target}.out.{[e for e in port.dzn_port_itf.interface.events.elements if e.direction == ast.EventDirection.OUT][0].name});'", 0),
    ('c01-reversed-call-arguments', ['C01'], PROC, CALL_ARGS,
     "call_arguments = ', '.join(reversed([arg.name for arg in event.signature.formals.elements]))", 2),
    ('c02-out-events-without-formals-not-rerouted', ['C02'], PROC,
     "        in_formals = [formal for formal in event.signature.formals.elements if\n                      formal.direction == ast.FormalDirection.IN]\n",
     "        in_formals = [formal for formal in event.signature.formals.elements if\n                      formal.direction == ast.FormalDirection.IN]\n        if not event.signature.formals.elements and len(port.dzn_port_itf.interface.events.elements) > 2:\n            continue\n", 0),
    ('c01-closure-posted-twice', ['C01'], PROC,
     "        txt = f'{port.accessor_target}.out.{event.name} = [&]{stdfunction_arguments} {{\\n' \\\n              f'    return {facilities.dispatcher.name}([&{captures_by_value}] ' \\",
     "        dup = (f'    {facilities.dispatcher.name}([&{captures_by_value}] {{ {encapsulee.member_var.name}.{port.name}.out.{event.name}({call_arguments}); }});\\n'\n               if len(in_formals) == 2 else '')\n        txt = f'{port.accessor_target}.out.{event.name} = [&]{stdfunction_arguments} {{\\n' + dup + \\\n              f'    return {facilities.dispatcher.name}([&{captures_by_value}] ' \\", 0),
    ('c02-in-event-not-via-dispatcher', ['C02'], PROC,
     "f'    return dzn::shell({facilities.dispatcher.name}, [&{captures_by_value}] ' \\\n              f'{{ return {encapsulee.member_var.name}.{port.name}.in.{event.name}' \\\n              f'({call_arguments}); }});\\n' \\",
     "f'    return [&{captures_by_value}] ' \\\n              f'{{ return {encapsulee.member_var.name}.{port.name}.in.{event.name}' \\\n              f'({call_arguments}); }}();\\n' \\", 0),
    ('c02-out-event-via-shell', ['C02'], PROC,
     "f'    return {facilities.dispatcher.name}([&{captures_by_value}] ' \\",
     "f'    return dzn::shell({facilities.dispatcher.name}, [&{captures_by_value}] ' \\", 0),
    ('c02-by-value-captures-dropped', ['C02', 'C01'], PROC,
     "        captures_by_value = ''.join(f', {x.name}' for x in in_formals)\n        stdfunction_arguments = '(' + ', '.join(args) + ')' if args else ''\n        call_arguments = ', '.join([arg.name for arg in event.signature.formals.elements])\n\n        txt = f'{port.accessor_target}.out.",
     "        captures_by_value = ''\n        stdfunction_arguments = '(' + ', '.join(args) + ')' if args else ''\n        call_arguments = ', '.join([arg.name for arg in event.signature.formals.elements])\n\n        txt = f'{port.accessor_target}.out.", 0),
    ('c02-sts-accessor-typed-mts', ['C02'], PROC,
     "strict_port = TypeDesc(Fqn(support_files_ns + ns_ids_t('Sts'), True), TemplateArg(typ.fqn))",
     "strict_port = TypeDesc(Fqn(support_files_ns + ns_ids_t('Mts'), True), TemplateArg(typ.fqn))", 0),
    ('c04-select-on-any-reply', ['C04'], PROC,
     "f'if (r == {fqn_reply}) {port.accessor_target}.Select(identifier);',",
     "f'if (r == r) {port.accessor_target}.Select(identifier);',", 0),
    ('c04-deselect-ignores-holder', ['C04', 'C11'], SEL,
     '        if (clientSelect.value().get().identifier != identifier) return log.Warning("Client " + identifier + " does not hold the claim -> ignoring its release.");\n', '', 0),
    ('c04-out-events-to-first-client', ['C04'], PROC,
     "'    if (lockAndData->has_value()) lockAndData->value().get().dznPort.out.' \\",
     "'    if (lockAndData->has_value()) lockAndData->value().get().dznPort.out.' \\", 0),   # placeholder (no-op), replaced below
    ('c04-selection-state-shared-by-all-instances', ['C04', 'C11'], SEL,
     '    MutexWrapped<ClientSelect> m_clientSelect;', '    static inline MutexWrapped<ClientSelect> m_clientSelect;', 0),
    ('c08-list-of-set-in-overview', ['C08'], 'adv_shell/port_selection.py',
     "explicit_ports.append(f'MTS={sorted(mts_explicit_ports)}')", "explicit_ports.append(f'MTS={list(mts_explicit_ports)}')", 0),
    ('c09-dispatcher-not-put-into-locator', ['C09'], PROC, "               f'.set({facilities.dispatcher.name})))',", "               '))',", 0),
    ('c09-create-check-inverted', ['C09'], PROC,
     "'if (locator.try_get<dzn::pump>() != nullptr) throw std::runtime_error('", "'if (locator.try_get<dzn::pump>() == nullptr) throw std::runtime_error('", 0),
    # (dropping one of the import presence checks is an EQUIVALENT mutant: locator.get<>() in the member initialiser and
    #  in the wrapped component still make construction fail - the statement only demands that it fails)
    ('c09-import-check-inverted', ['C09'], PROC,
     "'if (locator.try_get<dzn::pump>() == nullptr) throw std::runtime_error('", "'if (locator.try_get<dzn::pump>() != nullptr) throw std::runtime_error('", 0),
    ('c10-multiclient-final-construct-dropped', ['C10'], PROC,
     "    final_construct_calls = [f'{p.accessor_target}.FinalConstruct();' for p in all_pp if\n                             p.dzn_port_itf.multiclient]",
     "    final_construct_calls = []", 0),
    ('c10-requires-port-checks-dropped', ['C10'], PROC,
     "        [f'{p.accessor_target}.check_bindings();' for p in all_rp],", "        [f'{p.accessor_target}.check_bindings();' for p in all_rp[1:]],", 0),
    ('c10-parent-not-stored', ['C10'], PROC, "        f'{encapsulee_mv}.dzn_meta.parent = {param.name};',\n", '', 0),
    ('c10-registration-not-closed', ['C10'], SEL, "        m_finalConstructed = true;\n", '', 0),
    ('c11-lock-not-taken', ['C11'], MW, 'std::unique_lock lock(m_mutex);', 'std::unique_lock lock(m_mutex, std::defer_lock);', 0),
    ('c11-reset-does-not-unlock', ['C11'], MW, 'void operator()(T*) { if (lock.owns_lock()) lock.unlock(); }', 'void operator()(T*) { }', 0),
    ('c12-scope-resolution-pops-callers-list', ['C12'], 'scoping.py',
     'current_scope = deepcopy(calling_scope) if calling_scope else namespaceids_t([])', 'current_scope = calling_scope if calling_scope else namespaceids_t([])', 0),
    ('c12-support-header-cached-across-prefixes', ['C12'], 'support_files/strict_port.py',
     "    namespace, cpp_ns, file_ns = distillate_ns(ns_prefix)\n\n    cfg = SupportFileCfg(header=header_hh_template(cpp_ns),",
     "    namespace, cpp_ns, file_ns = distillate_ns(ns_prefix)\n    if not hasattr(create_header, '_first'):\n        create_header._first = cpp_ns\n    cpp_ns = create_header._first\n\n    cfg = SupportFileCfg(header=header_hh_template(cpp_ns),", 0),
    ('c16-accumulator-not-reset', ['C16'], 'json_ast.py', "        self._file_contents = FileContents()\n        root = parse_root(self.ast)", "        root = parse_root(self.ast)", 0),
    ('c16-class-level-ast', ['C16'], 'json_ast.py', "            self._ast = orjson.loads(json_contents)  # pylint: disable=no-member\n        self._verbose",
     "            DznJsonAst._ast = orjson.loads(json_contents)  # pylint: disable=no-member\n        self._verbose", 0),
]
MUTANTS = [m for m in MUTANTS if m[0] != 'c04-out-events-to-first-client']

# property-preserving refactors: every listed check must stay green
REFACTORS = [
    ('r-boundary-member-prefix-renamed', ['C01', 'C02', 'C10'], PROC, "mv_prefix = 'm_pp' if dzn.port.direction == ast.PortDirection.PROVIDES else 'm_rp'",
     "mv_prefix = 'm_boundaryP' if dzn.port.direction == ast.PortDirection.PROVIDES else 'm_boundaryR'", 0),
    ('r-facilities-check-message', ['C09'], PROC, 'Overlapping dispatcher found (dzn::pump)', 'a dispatcher is already present', 0),
    ('r-claim-local-renamed', ['C04', 'C11'], PROC, "[f'const auto r = {port.accessor_target}.Arbitered().in.{event.name}({call_arguments});',\n         f'if (r == {fqn_reply}) {port.accessor_target}.Select(identifier);',\n         'return r;'])",
     "[f'const auto claimReply = {port.accessor_target}.Arbitered().in.{event.name}({call_arguments});',\n         f'if (claimReply == {fqn_reply}) {port.accessor_target}.Select(identifier);',\n         'return claimReply;'])", 0),
    ('r-deselect-reformulated', ['C04', 'C11'], SEL,
     '        if (!clientSelect.has_value()) return log.Warning("Unexpected, claim already released.");\n        if (clientSelect.value().get().identifier != identifier) return log.Warning("Client " + identifier + " does not hold the claim -> ignoring its release.");\n\n        // Let go of the client\n        clientSelect.reset();',
     '        if (clientSelect.has_value() && clientSelect->get().identifier == identifier) clientSelect.reset();\n        else log.Warning("nothing to release for " + identifier);', 0),
    ('r-select-inside-dispatcher-closure', ['C04', 'C11', 'C02'], PROC,
     "[f'const auto r = {port.accessor_target}.Arbitered().in.{event.name}({call_arguments});',\n         f'if (r == {fqn_reply}) {port.accessor_target}.Select(identifier);',\n         'return r;'])",
     "[f'return dzn::shell(m_dispatcher, [&] {{',\n         f'    const auto r = m_encapsulee.{port.name}.in.{event.name}({call_arguments});',\n         f'    if (r == {fqn_reply}) {port.accessor_target}.Select(identifier);',\n         '    return r;',\n         '});'])", 0),
    # an error message that embeds an unordered set does not touch the property (it speaks about generated files)
    ('r-unsorted-names-in-an-error-message', ['C08'], 'adv_shell/port_selection.py',
     "raise AdvShellError(f'Configured {label} ports {sorted(unmatched)} not matched')",
     "raise AdvShellError(f'Configured {label} ports {list(unmatched)} not matched')", 0),
    ('r-support-header-comment', ['C12', 'C08'], 'support_files/ilog.py', 'Description: interfaces for logging informationals, warnings and errors.', 'Description: logging interfaces (info, warning, error).', 0),
    ('r-overview-wording', ['C08', 'C12'], 'adv_shell/__init__.py', "'User configuration:',", "'Configuration given by the user:',", 0),
    ('r-process-resets-in-place', ['C16'], 'json_ast.py', "        self._file_contents = FileContents()\n        root = parse_root(self.ast)",
     "        self._file_contents = FileContents(components=[], enums=[], externs=[], filenames=[], foreigns=[], imports=[], interfaces=[], subints=[], systems=[])\n        root = parse_root(self.ast)", 0),
    ('r-mutexwrapped-lock-guard-style', ['C11'], MW, 'std::unique_lock lock(m_mutex);', 'std::unique_lock<std::mutex> lock{m_mutex};', 0),
]

# budgets below the quick tier's: the catalogue has ~150 items, and a planted defect that needs the full quick budget to
# show would be a weak catch anyway
BUDGET = {'C11': ['--models', '8', '--runs', '600'], 'C01': ['--models', '24', '--runs', '60'], 'C02': ['--models', '24', '--runs', '60'],
          'C04': ['--models', '12', '--runs', '150'], 'C09': ['--models', '24', '--runs', '20']}


def _replace_nth(text, old, new, n):
    idx = -1
    for _ in range(n + 1):
        idx = text.find(old, idx + 1)
        if idx < 0:
            return None
    return text[:idx] + new + text[idx + len(old):]


def _scratch(name):
    d = tempfile.mkdtemp(prefix=f'verif-mut-{name}-', dir=engine.SCRATCH_ROOT)
    shutil.copytree('/repo/src', os.path.join(d, 'src'))
    return d


def _run_check(prop, src_dir, tmp):
    env = dict(os.environ, VERIF_REPO_SRC=src_dir, VERIF_EVIDENCE_DIR=tmp, VERIF_REPLAY_DIR=tmp)
    env.pop('VERIF_SEED', None)
    p = subprocess.run([sys.executable, CHECK, prop, '--tier', 'quick'] + BUDGET.get(prop, []), stdout=subprocess.PIPE, stderr=subprocess.STDOUT,
                       env=env, text=True, timeout=3600)
    classes = sorted({l.split('class=')[1].split(' ')[0] for l in p.stdout.splitlines() if 'class=' in l})
    tail = p.stdout[-800:]
    rc = p.returncode
    if rc == 1:
        # replay contract: the first replay file reproduces against the defective tree (exit 1) in a fresh process and
        # is judged "held" against the unchanged tree (exit 0)
        replays = sorted(glob.glob(os.path.join(tmp, f'{prop}-*.json')))
        if replays:
            # prefer a replay that was reproducible when it was recorded (a tree whose behaviour depends on object
            # addresses yields replays flagged otherwise; those may legitimately not recur)
            firm = [r for r in replays if json.load(open(r)).get('reproducible') is not False]
            flagged = not firm
            replays = firm or replays
            vclass = json.load(open(replays[0]))['violation']['class']
            r1 = subprocess.run([sys.executable, CHECK, prop, '--replay', replays[0]], stdout=subprocess.PIPE, stderr=subprocess.STDOUT, env=env, text=True, timeout=1800)
            if r1.returncode != 1 and vclass.startswith(('sanitizer:memory-error', 'crash:')):
                # undefined behaviour in the defective program: what a dangling access observes varies between executions
                for _ in range(3):
                    r1 = subprocess.run([sys.executable, CHECK, prop, '--replay', replays[0]], stdout=subprocess.PIPE, stderr=subprocess.STDOUT, env=env, text=True, timeout=1800)
                    if r1.returncode == 1:
                        break
            env2 = dict(env)
            env2.pop('VERIF_REPO_SRC')
            r2 = subprocess.run([sys.executable, CHECK, prop, '--replay', replays[0]], stdout=subprocess.PIPE, stderr=subprocess.STDOUT, env=env2, text=True, timeout=1800)
            classes.append(f'replay(defective)={r1.returncode},replay(clean)={r2.returncode}')
            if (r1.returncode != 1 and not (flagged and r1.returncode == 0)) or r2.returncode != 0:
                rc = 2
                tail += ' REPLAY-CONTRACT-BROKEN ' + r1.stdout[-300:] + ' | ' + r2.stdout[-300:]
    return rc, classes, tail


def _evaluate(name, checks, apply_fn, expect_violation):
    d = _scratch(name)
    results = []
    try:
        if not apply_fn(os.path.join(d, 'src')):
            return name, 'NOT-APPLICABLE (source text not found - catalogue out of date)', False
        for prop in checks:
            tmp = tempfile.mkdtemp(prefix='verif-mut-ev-', dir=engine.SCRATCH_ROOT)
            try:
                rc, classes, tail = _run_check(prop, os.path.join(d, 'src'), tmp)
            finally:
                shutil.rmtree(tmp, ignore_errors=True)
            results.append((prop, rc, classes, tail))
    finally:
        shutil.rmtree(d, ignore_errors=True)
    if expect_violation:
        ok = any(rc == 1 for _, rc, _, _ in results) and not any(rc == 2 for _, rc, _, _ in results)
    else:
        ok = all(rc == 0 for _, rc, _, _ in results)
    text = '; '.join(f'{prop}: rc={rc} {classes[:3]}' for prop, rc, classes, _ in results)
    if not ok:
        text += ' || ' + ' | '.join(t.replace('\n', ' / ')[-300:] for _, _, _, t in results)
    return name, text, ok


def _job(item):
    kind, name, checks, payload = item
    if kind == 'replace':
        rel, old, new, n = payload

        def apply_fn(src):
            path = os.path.join(src, 'dznpy', rel)
            text = open(path).read()
            out = _replace_nth(text, old, new, n)
            if out is None or out == text:
                return False
            open(path, 'w').write(out)
            return True
        return _evaluate(name, checks, apply_fn, expect_violation=not name.startswith('r-'))
    patch = payload

    def apply_patch(src):
        r = subprocess.run(['patch', '-p1', '-s', '-d', os.path.dirname(src), '-i', patch], stdout=subprocess.PIPE, stderr=subprocess.STDOUT)
        return r.returncode == 0
    return _evaluate(name, checks, apply_patch, expect_violation=not name.startswith('r-'))


def run_catalogue():
    items = [('replace', m[0], m[1], (m[2], m[3], m[4], m[5])) for m in MUTANTS]
    items += [('replace', m[0], m[1], (m[2], m[3], m[4], m[5])) for m in REFACTORS]
    for meta_path in sorted(glob.glob(os.path.join(engine.VERIF, 'seeded', '*', 'meta.json'))):
        sid = os.path.basename(os.path.dirname(meta_path))
        meta = json.load(open(meta_path))
        import re
        # the checks that were seen to report it when it was evaluated (usually, but not always, the check of the property
        # it was written against: e.g. a lost out-argument planted for C02 is C01's and C04's subject)
        caught = [m.group(1) for c in meta.get('caught_by', []) for m in [re.match(r'^(?:missed[^;]*; )?(C\d\d)\b', c)] if m]
        caught = [meta['property']] if (meta['property'] in caught or not caught) else caught[:1]
        if meta.get('missed'):
            print(f'skip seeded-{sid}: recorded as a known miss ({meta.get("why_missed", "")[:120]}...)', flush=True)
            continue
        items.append(('patch', 'seeded-' + sid, caught, os.path.join(os.path.dirname(meta_path), 'patch.diff')))
    for meta_path in sorted(glob.glob(os.path.join(engine.VERIF, 'seeded', 'refactors', '*', 'meta.json'))):
        sid = os.path.basename(os.path.dirname(meta_path))
        meta = json.load(open(meta_path))
        items.append(('patch', 'r-agent-' + sid, meta['must_stay_green'], os.path.join(os.path.dirname(meta_path), 'patch.diff')))
    only = os.environ.get('VERIF_MUTANTS_ONLY')
    if only:
        wanted = set(only.split(','))
        items = [it for it in items if it[1] in wanted]
    failures = 0
    # the checks parallelise internally; run the catalogue sequentially
    for item in items:
        name, text, ok = _job(item)
        print(f"{'ok  ' if ok else 'FAIL'} {name}: {text}", flush=True)
        if not ok:
            failures += 1
    print(f'sensitivity self-test: {len(items) - failures}/{len(items)} as expected')
    return engine.EXIT_OK if failures == 0 else engine.EXIT_HARNESS
