"""Bounded model shrinking for World A replays: after the tape has been minimised, drop what the failing run never
touched - decoy declarations, other components, ports without any call or handler in the history, and declarations
that nothing references any more.  Every candidate is rebuilt with the real dznpy, recompiled and re-run; the
violation class must persist.  At most `budget` recompiles."""
import json

import orjson

from . import cxxgen, modelgen, tapes, worldA
from .rng import Rng


def _clone(x):
    return json.loads(json.dumps(x))


def _touched_ports(mb, result):
    touched = set()
    for r in result.records:
        if r['kind'] in ('call', 'hdl') and 'ev' in r:
            touched.add(mb.events[int(r['ev'])]['port'])
    return touched


def _remap_run(run, old_events, old_ports, new_events, new_ports):
    """Translate event indices of a tape from the old table to the new one; None when the tape uses a removed event."""
    key_new = {(new_ports[e['port']]['name'], e['name']): e['idx'] for e in new_events}

    def m(ev):
        if ev < 0:
            return ev
        e = old_events[ev]
        return key_new.get((old_ports[e['port']]['name'], e['name']))

    out = _clone(run)
    for t in out['tasks']:
        for op in t['ops']:
            if op[0] == 'O':
                op[1] = m(op[1])
                if op[1] is None:
                    return None
            elif op[0] == 'Y' and op[4] >= 0:
                op[4] = m(op[4])
                if op[4] is None:
                    op[4] = -1
    scripts = []
    for side, ev, reply, wish, follow in out['scripts']:
        ne = m(ev)
        if ne is None:
            continue
        nf = [m(f) for f in follow]
        scripts.append([side, ne, reply, wish, [f for f in nf if f is not None]])
    out['scripts'] = scripts
    unb = []
    for side, ev, cl in out['unbinds']:
        ne = m(ev)
        if ne is None:
            return None
        unb.append([side, ne, cl])
    out['unbinds'] = unb
    out['sched'] = None   # the explicit schedule belongs to the old program; re-derive it from the seed
    return out


def _drop_port(spec, cfgspec, name):
    spec = _clone(spec)
    cfg = _clone(cfgspec)
    comp = spec['component']
    port = next(p for p in comp['ports'] if p['name'] == name)
    comp['ports'] = [p for p in comp['ports'] if p['name'] != name]
    side = 'provides' if port['dir'] == 'provides' else 'requires'
    for sem in ('sts', 'mts'):
        sel = cfg[side][sem]
        if isinstance(sel, list) and name in sel:
            sel = [n for n in sel if n != name]
            cfg[side][sem] = sel if sel else 'NONE'
    if cfg[side]['sts'] == 'NONE' and cfg[side]['mts'] == 'NONE':
        cfg[side][('sts' if cfg['expect'].get(name) == 'STS' else 'mts')] = 'ALL'
    if cfg[side]['sts'] == cfg[side]['mts']:
        return None
    cfg['expect'].pop(name, None)
    return spec, cfg


def _prune_unreferenced(spec):
    spec = _clone(spec)
    spec['decoys'] = []
    spec['extra_comps'] = []
    used_itf = {tuple(p['itf']) for p in spec['component']['ports']}
    spec['interfaces'] = [i for i in spec['interfaces'] if tuple(i['ns'] + [i['name']]) in used_itf]
    used_ext, used_enum = set(), set()
    for itf in spec['interfaces']:
        for ev in itf['events']:
            if ev['ret']['kind'] in ('enum', 'subint'):
                used_enum.add(tuple(ev['ret']['fqn']))
            for f in ev['formals']:
                used_ext.add(tuple(f['ext']))
    if spec['mc']:
        used_enum.add(tuple(spec['mc']['enum']))
    spec['externs'] = [e for e in spec['externs'] if tuple(e['ns'] + [e['name']]) in used_ext]
    spec['enums'] = [e for e in spec['enums'] if tuple(e['ns'] + [e['name']]) in used_enum]
    spec['subints'] = [e for e in spec['subints'] if tuple(e['ns'] + [e['name']]) in used_enum]
    fq = set()
    for group in ('externs', 'enums', 'subints', 'interfaces'):
        for d in spec[group]:
            fq.add(tuple(d['ns'] + [d['name']]))
    for itf in spec['interfaces']:
        for d in itf['enums'] + itf['subints']:
            fq.add(tuple(d['ns'] + [d['name']]))
    fq.add(tuple(spec['component']['ns'] + [spec['component']['name']]))
    spec['fqns'] = sorted(list(f) for f in fq)
    return spec


def shrink_model(build_fn, spec, cfgspec, run, judge, want_class, mb, result, budget=10):
    """build_fn(spec, cfgspec, json_bytes) -> ModelBuild (raises on failure).  Returns (spec, cfgspec, json_text, run,
    result raw history) of the smallest failing variant found, or None when nothing smaller failed the same way."""
    spent = 0
    best = None
    cur_spec, cur_cfg, cur_run = spec, cfgspec, run
    cur_ports, cur_events = mb.ports, mb.events
    touched = _touched_ports(mb, result)
    candidates = [('prune', None)] + [('port', p['name']) for p in mb.ports
                                      if p['idx'] not in touched and not (cfgspec['multiclient'] and cfgspec['multiclient']['port'] == p['name'])]
    for kind, arg in candidates:
        if spent >= budget:
            break
        if kind == 'prune':
            cand_spec, cand_cfg = _prune_unreferenced(cur_spec), cur_cfg
        else:
            if len(cur_spec['component']['ports']) <= 1:
                continue
            dropped = _drop_port(cur_spec, cur_cfg, arg)
            if dropped is None:
                continue
            cand_spec, cand_cfg = dropped
            cand_spec = _prune_unreferenced(cand_spec)
        try:
            new_ports, new_events = cxxgen.event_table(cand_spec, cand_cfg)
        except Exception:  # pylint: disable=broad-except
            continue
        cand_run = _remap_run(cur_run, cur_events, cur_ports, new_events, new_ports)
        if cand_run is None:
            continue
        js = orjson.dumps(modelgen.to_json_ast(cand_spec, Rng('shrink', spent)))
        spent += 1
        try:
            cmb = build_fn(cand_spec, cand_cfg, js)
        except Exception:  # pylint: disable=broad-except
            continue
        try:
            res = worldA.run_tapes(cmb, tapes.render(cand_run))[0]
            try:
                vs = judge(cmb, cand_run, res)
            except worldA.HarnessError:
                vs = []
            if any(v.cls == want_class for v in vs):
                if res.sched:
                    cand_run['sched'] = list(res.sched)
                cur_spec, cur_cfg, cur_run = cand_spec, cand_cfg, cand_run
                cur_ports, cur_events = new_ports, new_events
                best = (cand_spec, cand_cfg, js.decode('utf-8'), cand_run, res.raw[:400], res.noise[:60])
        finally:
            cmb.cleanup()
    return best
