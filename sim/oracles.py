"""Oracles over recorded World A histories.  Every oracle returns a list of Violation objects; an empty list means
the property held on that run.  Violation classes are stable strings: shrinking keeps the class constant and
known findings are matched by class (never by seed)."""
from collections import defaultdict

from .worldA import HarnessError


class Violation:
    def __init__(self, cls, detail, seq=None):
        self.cls = cls
        self.detail = detail
        self.seq = seq

    def as_dict(self):
        return {'class': self.cls, 'detail': self.detail, 'seq': self.seq}

    def __repr__(self):
        return f'Violation({self.cls}: {self.detail})'


def toks(s):
    if s in (None, '-', ''):
        return []
    return [int(x) for x in s.split(',')]


# ------------------------------------------------------------------------------------------------ basic
def sanitizer_kind(noise):
    """Memory errors are folded into one class: which flavour ASan reports for a dangling access depends on what
    the dead memory happens to contain, and shrinking must be able to keep the class constant."""
    text = '\n'.join(noise)
    if 'ThreadSanitizer' in text:
        if 'SEGV' in text or 'DEADLYSIGNAL' in text or 'heap-use-after-free' in text or 'double-free' in text:
            return 'memory-error'
        if 'data race' in text:
            return 'data-race'
        if 'lock-order-inversion' in text:
            return 'lock-order-inversion'
        return 'tsan-other'
    if 'AddressSanitizer' in text or 'LeakSanitizer' in text:
        return 'memory-error'
    if 'runtime error:' in text:
        return 'undefined-behaviour'
    return None


def basic(result, expect_quiesced=True):
    """Violations every world shares: sanitizer reports, crashes, exceptions, deadlock, bounded liveness."""
    v = []
    kind = sanitizer_kind(result.noise)
    if kind:
        first = next((l for l in result.noise if 'ERROR' in l or 'WARNING' in l or 'runtime error' in l), result.noise[0])
        v.append(Violation('sanitizer:' + kind, first.strip()[:300]))
        return v
    if result.signal is not None:
        if result.signal == 14:
            raise HarnessError(f'run {result.id}: wall-clock timeout (SIGALRM)')
        v.append(Violation(f'crash:signal{result.signal}', ' | '.join(result.noise[:5])[:300]))
        return v
    if result.noise:
        v.append(Violation('unexpected-output', ' | '.join(result.noise[:5])[:300]))
        return v
    if result.exit == 3:
        if any(n.startswith('#BUDGET') for n in result.notes):
            v.append(Violation('liveness:step-budget-exceeded', _blocked(result)))
        else:
            v.append(Violation('deadlock', _blocked(result)))
        return v
    if result.exit == 5:
        exc = [r for r in result.records if r['kind'] == 'exc']
        what = exc[-1].get('what', '?') if exc else '?'
        where = exc[-1].get('where', '?') if exc else '?'
        v.append(Violation('exception:' + where + ':' + _generic_what(what), what, exc[-1]['seq'] if exc else None))
        return v
    if result.exit != 0:
        raise HarnessError(f'run {result.id}: simulation exited with {result.exit}; notes={result.notes[:5]}')
    if expect_quiesced and not any(r['kind'] in ('quiesced', 'shell_ctor', 'fc') for r in result.records):
        raise HarnessError(f'run {result.id}: history has no construction records')
    v += sibling(result)
    return v


def replaced_handlers(h):
    """After the user has re-bound the out-event handlers of a client port (record `rebind`, made while the port was
    quiet), every later out-event for that client must reach the handlers bound last, not the ones they replaced."""
    rb = [(r['seq'], int(r['cl']), int(r['gen'])) for r in h.by_kind.get('rebind', [])]
    if not rb:
        return []
    for hd in h.handlers:
        if hd['side'] != 'o' or hd['cl'] < 0:
            continue
        want = max([g for (seq, cl, g) in rb if cl == hd['cl'] and seq < hd['seq']], default=0)
        if hd['gen'] != want:
            e = h.mb.events[hd['ev']]
            return [Violation('routing:out-event-delivered-to-a-replaced-handler',
                              f"event {e['name']} for client {hd['cl']} reached the handler bound as #{hd['gen']}, the user had since bound #{want}", hd['seq'])]
    return []


def sibling(result):
    """A second instance of the same shell type lives in the process (tape keyword SIBLING): nothing the judged instance
    does may reach it, and at the end it is exactly as it was left - same parent, same registered clients, its own
    claim holder still receives its component's out-event."""
    out = []
    for r in result.records:
        if r['kind'] == 'xtalk':
            out.append(Violation('instance:event-reached-another-shell-instance', f"event {r.get('ev')} side {r.get('side')} client {r.get('cl')}", r['seq']))
            break
    for r in result.records:
        if r['kind'] == 'companion_ctor' and r.get('result') != 'ok':
            out.append(Violation('instance:another-generated-shell-in-the-program-broken',
                                 f"the companion shell (same component, other facilities origin) rejects a locator that is valid for it: {r.get('what')}", r['seq']))
    for r in result.records:
        if r['kind'] != 'sibling_check':
            continue
        if 'exc' in r:
            out.append(Violation('instance:sibling-instance-disturbed', f"inspection threw {r['exc']}", r['seq']))
        elif r.get('parent_ok') != '1' or r.get('ids_ok') != '1':
            out.append(Violation('instance:sibling-instance-disturbed', f"parent_ok={r.get('parent_ok')} ids_ok={r.get('ids_ok')}", r['seq']))
        elif r.get('delivered') not in ('-', r.get('holder')) and not (r.get('holder') == '-1' and r.get('delivered') == 'none'):
            out.append(Violation('instance:sibling-instance-disturbed',
                                 f"its component's out-event went to {r.get('delivered')}, its claim holder is client {r.get('holder')}", r['seq']))
    return out


def _generic_what(what):
    if 'bad_function_call' in what:
        return 'bad_function_call'
    return 'other'


def _blocked(result):
    return ' ; '.join(n[1:].strip() for n in result.notes if n.startswith('#TASK') or n.startswith('#DEADLOCK'))[:400]


# ------------------------------------------------------------------------------------------------ history model
class History:
    def __init__(self, mb, run, result):
        self.mb = mb
        self.run = run
        self.result = result
        self.calls = {}      # cid -> dict(call fields + ret fields)
        self.handlers = []   # dicts
        self.by_kind = defaultdict(list)
        hid_map = {}
        for r in result.records:
            k = r['kind']
            self.by_kind[k].append(r)
            if k == 'call':
                self.calls[int(r['cid'])] = {'cid': int(r['cid']), 'ev': int(r['ev']), 'side': r['side'], 'cl': int(r['cl']),
                                             'in': toks(r['in']), 'seq': r['seq'], 'task': r['task'], 'ret': None}
            elif k == 'ret':
                c = self.calls.get(int(r['cid']))
                if c is not None:
                    c['ret'] = {'seq': r['seq'], 'reply': None if r['reply'] == '-' else int(r['reply']), 'out': toks(r['out']),
                                'waits': int(r['waits']), 'posts': int(r['posts'])}
            elif k == 'hdl':
                h = {'hid': int(r['hid']), 'ev': int(r['ev']), 'side': r['side'], 'cl': int(r['cl']), 'in': toks(r['in']),
                     'reply': None if r['reply'] == '-' else int(r['reply']), 'out': toks(r['out']), 'disp': int(r['disp']),
                     'ord': int(r['ord']), 'seq': r['seq'], 'task': r['task'], 'end': None, 'gen': int(r.get('gen', '0'))}
                hid_map[h['hid']] = h
                self.handlers.append(h)
            elif k == 'hdl_end':
                h = hid_map.get(int(r['hid']))
                if h is not None:
                    h['end'] = r['seq']

    def first(self, kind):
        lst = self.by_kind.get(kind)
        return lst[0] if lst else None

    def shell_pump(self):
        """Id of the dispatcher the shell must use: the pump constructed during shell construction (create) or
        the user's pump (import)."""
        origin = self.mb.cfgspec['origin']
        for r in self.by_kind.get('pump_ctor', []):
            if origin == 'CREATE' and r['phase'] == '1':
                return int(r['id'])
            if origin == 'IMPORT' and r['phase'] == '0':
                return int(r['id'])
        return None


def _match(calls, handlers, ok):
    """Maximum bipartite matching (Kuhn) between calls and handlers under predicate ok(call, handler)."""
    adj = [[j for j, h in enumerate(handlers) if ok(c, h)] for c in calls]
    match_h = [-1] * len(handlers)

    def try_(i, seen):
        for j in adj[i]:
            if j in seen:
                continue
            seen.add(j)
            if match_h[j] < 0 or try_(match_h[j], seen):
                match_h[j] = i
                return True
        return False

    match_c = [-1] * len(calls)
    for i in range(len(calls)):
        try_(i, set())
    for j, i in enumerate(match_h):
        if i >= 0:
            match_c[i] = j
    return match_c, match_h


def routing(h: History, dont_care_call=None):
    """C01 core: a bijection between calls and handler executions of the same (port, event) with equal argument
    tokens, reply and out/inout tokens.  dont_care_call(call) -> True exempts a call from 'must be delivered'
    (never from 'at most once, right place, right values')."""
    v = []
    events = h.mb.events
    ports = h.mb.ports
    calls = sorted(h.calls.values(), key=lambda c: c['seq'])
    handlers = h.handlers

    def expected_async(c):
        e = events[c['ev']]
        p = ports[e['port']]
        return c['side'] == 'o' and p['dir'] == 'requires' and p['sem'] == 'MTS'

    def strict(c, hd):
        # synchronous events are handled inside the caller's [call, return] interval
        if not compatible(c, hd):
            return False
        if c['ret'] is not None and not expected_async(c) and (hd['end'] is None or hd['end'] > c['ret']['seq']):
            return False
        # an event raised by the component is a plain nested function call into the user's handler: same thread
        if c['side'] == 'i' and hd['task'] != c['task']:
            return False
        return True

    def compatible(c, hd):
        if c['ev'] != hd['ev']:
            return False
        if (c['side'] == 'o') != (hd['side'] == 'i'):
            return False
        if c['in'] != hd['in']:
            return False
        if hd['seq'] < c['seq']:
            return False
        if c['ret'] is not None:
            if c['ret']['out'] != hd['out'] and _blocking_expected(h, c):
                return False
            if c['ret']['reply'] != hd['reply'] and events[c['ev']]['ret'] != 'void':
                return False
        return True

    match_c, match_h = _match(calls, handlers, strict)
    # second phase: whatever is left may still pair up outside the expected timing (timing is C02's subject)
    rest_c = [i for i in range(len(calls)) if match_c[i] < 0]
    rest_h = [j for j in range(len(handlers)) if match_h[j] < 0]
    if rest_c and rest_h:
        mc2, _ = _match([calls[i] for i in rest_c], [handlers[j] for j in rest_h], compatible)
        for a, b in enumerate(mc2):
            if b >= 0:
                match_c[rest_c[a]] = rest_h[b]
                match_h[rest_h[b]] = rest_c[a]
    for i, c in enumerate(calls):
        if match_c[i] >= 0:
            continue
        e = events[c['ev']]
        name = f"{ports[e['port']]['name']}.{e['name']}"
        # diagnose: is there a handler execution that received these tokens somewhere else / with other values?
        same_ev = [hd for hd in handlers if hd['ev'] == c['ev'] and (c['side'] == 'o') == (hd['side'] == 'i')]
        elsewhere = [hd for hd in handlers if c['in'] and hd['in'] == c['in'] and hd['ev'] != c['ev']]
        same_in = [hd for hd in same_ev if hd['in'] == c['in'] and hd['seq'] >= c['seq']]
        if elsewhere:
            e2 = events[elsewhere[0]['ev']]
            v.append(Violation('routing:wrong-port-or-event', f"call {name} arrived at {ports[e2['port']]['name']}.{e2['name']}", c['seq']))
        elif same_in and c['in']:
            hd = same_in[0]
            if c['ret'] is not None and c['ret']['reply'] != hd['reply']:
                v.append(Violation('routing:reply-not-carried-back', f"{name}: caller got reply {c['ret']['reply']}, handler replied {hd['reply']}", c['seq']))
            elif c['ret'] is not None and c['ret']['out'] != hd['out']:
                v.append(Violation('routing:out-args-not-carried-back', f"{name}: caller got {c['ret']['out']}, handler wrote {hd['out']}", c['seq']))
            else:
                v.append(Violation('routing:duplicate', f'{name}: more calls than distinct handler executions', c['seq']))
        elif same_ev and c['in'] and any(sorted(hd['in']) == sorted(c['in']) for hd in same_ev):
            v.append(Violation('routing:argument-order', f"{name}: arguments permuted", c['seq']))
        elif same_ev and c['in'] and any(set(hd['in']) & set(c['in']) for hd in same_ev):
            v.append(Violation('routing:arguments-altered', f"{name}: sent {c['in']}", c['seq']))
        else:
            if dont_care_call and dont_care_call(c):
                continue
            if not c['in'] and same_ev and c['ret'] is not None and all(
                    (hd['reply'] != c['ret']['reply'] or hd['out'] != c['ret']['out']) for hd in same_ev if hd['seq'] >= c['seq']):
                v.append(Violation('routing:reply-not-carried-back', f"{name}: caller got reply {c['ret']['reply']} out {c['ret']['out']}", c['seq']))
            else:
                v.append(Violation('routing:unrouted', f'{name}: call has no handler execution', c['seq']))
    for j, hd in enumerate(handlers):
        if match_h[j] >= 0:
            continue
        e = events[hd['ev']]
        name = f"{ports[e['port']]['name']}.{e['name']}"
        dup = [c for c in calls if c['ev'] == hd['ev'] and c['in'] == hd['in'] and hd['in']]
        if dup:
            v.append(Violation('routing:duplicate', f'{name}: handler executed more than once for one call', hd['seq']))
        else:
            src = [c for c in calls if hd['in'] and c['in'] == hd['in']]
            if src:
                e2 = events[src[0]['ev']]
                v.append(Violation('routing:wrong-port-or-event', f"call {ports[e2['port']]['name']}.{e2['name']} arrived at {name}", hd['seq']))
            else:
                v.append(Violation('routing:phantom', f'{name}: handler execution without a call', hd['seq']))
    return _dedup(v), match_c


def _blocking_expected(h, c):
    """Calls whose out values must be visible at return: everything except posted (MTS requires out-events),
    which have no out parameters anyway."""
    return True


def _dedup(v):
    seen = set()
    out = []
    for x in v:
        key = (x.cls, x.detail)
        if key not in seen:
            seen.add(key)
            out.append(x)
    return out


# ------------------------------------------------------------------------------------------------ C01
def mc_window_open_seq(h: History):
    """Sequence number at which the (single) client of a multi-client port has been granted the claim."""
    mci = h.mb.mc
    if not mci:
        return None
    for c in sorted(h.calls.values(), key=lambda c: c['seq']):
        if c['ev'] == mci['claim'] and c['side'] == 'o' and c['ret'] and c['ret']['reply'] == mci['grant']:
            return c['ret']['seq']
    return None


def judge_c01(mb, run, result):
    v = basic(result)
    if v:
        return v
    h = History(mb, run, result)
    if h.first('shell_ctor') is None or h.first('shell_ctor')['result'] != 'ok':
        return [Violation('construction:valid-locator-rejected', str(h.first('shell_ctor')))]
    fc = h.first('fc')
    if fc is None or fc['result'] != 'ok':
        return [Violation('final-construct:all-bound-rejected', str(fc))]
    wopen = mc_window_open_seq(h)
    mci = mb.mc
    wclose = None
    if mci:
        rel = [c['seq'] for c in h.calls.values() if c['side'] == 'o' and c['ev'] == mci['release']]
        wclose = min(rel) if rel else None

    def dont_care(c):
        # out-events of a multi-client port are judged by C01 only inside the single client's claim window
        if not mci or c['side'] != 'i':
            return False
        e = mb.events[c['ev']]
        if not (e['port'] == mci['port'] and e['dir'] == 'out'):
            return False
        end = c['ret']['seq'] if c['ret'] else 10 ** 12
        return wopen is None or c['seq'] < wopen or (wclose is not None and end > wclose)

    vs, _ = routing(h, dont_care)
    return client_registration(h, run) + vs + replaced_handlers(h)


# ------------------------------------------------------------------------------------------------ C02
def judge_c02(mb, run, result):
    v = basic(result)
    if v:
        return v
    h = History(mb, run, result)
    if h.first('shell_ctor') is None or h.first('shell_ctor')['result'] != 'ok' or h.first('fc') is None or h.first('fc')['result'] != 'ok':
        return []   # construction problems are C09/C10's subject
    events, ports = mb.events, mb.ports
    sp = h.shell_pump()
    out = []
    # identity of STS ports
    for r in h.by_kind.get('port_identity', []):
        p = ports[int(r['port'])]
        if p['sem'] == 'STS' and r['same'] != '1':
            out.append(Violation('semantics:sts-accessor-not-component-port', f"port {p['name']}"))
    wopen = mc_window_open_seq(h)
    mci = mb.mc
    vs, match_c = routing(h, lambda c: True)
    calls = sorted(h.calls.values(), key=lambda c: c['seq'])
    for i, c in enumerate(calls):
        e = events[c['ev']]
        p = ports[e['port']]
        name = f"{p['name']}.{e['name']}"
        hd = h.handlers[match_c[i]] if match_c[i] >= 0 else None
        ret = c['ret']
        if p['sem'] == 'INJ':
            continue
        if c['side'] == 'o':
            if p['sem'] in ('MTS', 'MC') and p['dir'] == 'provides':
                if hd is not None and hd['disp'] != sp:
                    out.append(Violation('semantics:mts-in-event-not-in-dispatcher', f"{name} handled on task {hd['task']} (dispatcher {hd['disp']}, expected {sp})", c['seq']))
                if hd is not None and ret is not None and not (hd['end'] is not None and hd['end'] < ret['seq']):
                    out.append(Violation('semantics:mts-in-event-returned-before-handled', name, c['seq']))
                if hd is not None and hd['disp'] == sp and ret is not None and ret['waits'] < 1:
                    out.append(Violation('semantics:mts-in-event-did-not-block', name, c['seq']))
            elif p['sem'] == 'MTS' and p['dir'] == 'requires':
                if ret is not None and ret['waits'] != 0:
                    out.append(Violation('semantics:mts-out-event-waited-for-dispatcher', name, c['seq']))
                if ret is not None and ret['posts'] < 1:
                    out.append(Violation('semantics:mts-out-event-not-queued', name, c['seq']))
                if hd is not None and hd['disp'] != sp:
                    out.append(Violation('semantics:mts-out-event-not-in-dispatcher', f"{name} handled on task {hd['task']}", c['seq']))
                if hd is None:
                    bad = [x for x in vs if x.seq == c['seq']]
                    if bad and bad[0].cls in ('routing:arguments-altered', 'routing:argument-order'):
                        out.append(Violation('semantics:posted-arguments-not-copied', f"{name}: {bad[0].detail}", c['seq']))
            elif p['sem'] == 'STS':
                if ret is not None and (ret['posts'] != 0 or ret['waits'] != 0):
                    out.append(Violation('semantics:sts-event-passed-dispatcher', f"{name} posts={ret['posts']} waits={ret['waits']}", c['seq']))
                if hd is not None and hd['task'] != c['task']:
                    out.append(Violation('semantics:sts-event-not-on-caller', f"{name}: caller {c['task']}, handler on {hd['task']}", c['seq']))
        else:
            if p['sem'] == 'STS':
                if ret is not None and (ret['posts'] != 0 or ret['waits'] != 0):
                    out.append(Violation('semantics:sts-event-passed-dispatcher', f"{name} (outbound) posts={ret['posts']} waits={ret['waits']}", c['seq']))
                if hd is not None and hd['task'] != c['task']:
                    out.append(Violation('semantics:sts-event-not-on-caller', f"{name} (outbound)", c['seq']))
    return _dedup(out)


def judge_static_c02(mb, name, ok):
    if name.startswith('acc_type:') and not ok:
        port = name.split(':', 1)[1]
        return [Violation('semantics:accessor-strict-port-type', f'accessor of port {port} does not return the configured Sts/Mts enclosure')]
    return []


# ------------------------------------------------------------------------------------------------ C09
def _entries(s):
    return [] if s in ('-', '', None) else sorted(s.split(','))


def judge_c09(mb, run, result):
    v = basic(result)
    if v:
        return v
    h = History(mb, run, result)
    origin = mb.cfgspec['origin']
    loc = run['loc']
    out = []
    must_throw = (origin == 'CREATE' and (loc['pump'] or loc['runtime'])) or (origin == 'IMPORT' and not (loc['pump'] and loc['runtime']))
    ctor = h.first('shell_ctor')
    user = _entries(h.first('user_locator')['entries'])
    after = _entries(h.first('proto_after')['entries'])
    world = f"origin={origin} pump={loc['pump']} runtime={loc['runtime']} services={loc['svcs']}"
    if user != after:
        out.append(Violation('facilities:user-locator-modified', f'{world}: before={user} after={after}'))
    if must_throw:
        if ctor['result'] != 'throw':
            out.append(Violation('facilities:bad-locator-accepted', world))
        return out
    if ctor['result'] != 'ok':
        return out + [Violation('facilities:good-locator-rejected', f"{world}: {ctor.get('what')}")]
    comp = h.first('comp_ctor')
    comp_entries = _entries(comp['entries'])
    p1 = [r for r in h.by_kind.get('pump_ctor', []) if r['phase'] == '1']
    r1 = [r for r in h.by_kind.get('runtime_ctor', []) if r['phase'] == '1']
    acc = h.first('locator_accessor')
    if origin == 'CREATE':
        if len(p1) != 1 or len(r1) != 1:
            out.append(Violation('facilities:create-does-not-own-fresh-facilities', f'{world}: pumps constructed by shell={len(p1)} runtimes={len(r1)}'))
        else:
            own_p, own_r = f"pump#{p1[0]['id']}", f"runtime#{r1[0]['id']}"
            if comp['pump'] != own_p or comp['runtime'] != own_r:
                out.append(Violation('facilities:component-not-given-owned-facilities', f"{world}: component sees {comp['pump']}/{comp['runtime']}, shell owns {own_p}/{own_r}"))
            want = sorted(user + [own_p + '@-', own_r + '@-'])
            if comp_entries != want:
                out.append(Violation('facilities:component-locator-contents', f'{world}: component locator {comp_entries}, expected {want}'))
        if acc['present'] != '1':
            out.append(Violation('facilities:locator-accessor-missing', world))
        elif _entries(acc['entries']) != comp_entries:
            out.append(Violation('facilities:locator-accessor-contents', f"{world}: accessor {acc['entries']} vs component {comp['entries']}"))
        late = h.first('locator_after_fc')
        if late is not None and acc['present'] == '1':
            if late['result'] != 'ok' or late.get('present') != '1':
                out.append(Violation('facilities:locator-accessor-missing', f"{world}: after FinalConstruct: {late.get('what', late)}"))
            elif _entries(late['entries']) != comp_entries:
                out.append(Violation('facilities:locator-accessor-contents', f"{world}: after FinalConstruct {late['entries']} vs component {comp['entries']}"))
    else:
        if p1 or r1:
            out.append(Violation('facilities:import-constructed-own-facilities', f'{world}: pumps={len(p1)} runtimes={len(r1)}'))
        if comp['pump'] != 'pump#0' or comp['runtime'] != 'runtime#0':
            out.append(Violation('facilities:component-not-given-user-facilities', f"{world}: component sees {comp['pump']}/{comp['runtime']}"))
        if comp_entries != user:
            out.append(Violation('facilities:component-locator-contents', f'{world}: component locator {comp_entries}, user locator {user}'))
        if acc['present'] != '0':
            out.append(Violation('facilities:locator-accessor-offered-for-import', world))
    # identity during the run: every closure is executed by the one dispatcher the origin prescribes
    sp = h.shell_pump()
    for r in h.by_kind.get('exec', []) + h.by_kind.get('post', []):
        if int(r['pump']) != sp:
            out.append(Violation('facilities:event-dispatched-by-foreign-pump', f"{world}: {r['kind']} on pump {r['pump']}, expected {sp}", r['seq']))
            break
    for hd in h.handlers:
        if hd['disp'] not in (-1, sp):
            out.append(Violation('facilities:event-dispatched-by-foreign-pump', f"{world}: handler in dispatcher {hd['disp']}, expected {sp}", hd['seq']))
            break
    return _dedup(out)


# ------------------------------------------------------------------------------------------------ C10
def judge_c10(mb, run, result):
    v = basic(result)
    if v:
        return v
    h = History(mb, run, result)
    ctor = h.first('shell_ctor')
    if ctor is None or ctor['result'] != 'ok':
        return []   # C09's subject
    fc = h.first('fc')
    out = client_registration(h, run)
    rfc = h.first('reentrant_fc')
    if rfc is not None and rfc['result'] == 'ok':
        # FinalConstruct succeeded when the user's log handler called it in the middle of set-up: from then on no client
        # can be registered - in particular not the one whose registration was in progress
        from .tapes import quote_id
        for r in h.by_kind.get('client_registered', []):
            if r['seq'] > rfc['seq']:
                out.append(Violation('final-construct:client-registered-afterwards',
                                     f"client #{r['cl']} was registered although FinalConstruct had succeeded (called by the log sink on its message #{run.get('reentryfc')})"))
                break
        before = [quote_id(run['client_names'][int(r['cl'])]) for r in h.by_kind.get('client_registered', []) if r['seq'] < rfc['seq']]
        for r in h.by_kind.get('client_ids_setup', []):
            got = sorted([] if r['ids'] == '-' else r['ids'].split(','))
            if got != sorted(before) and not out:
                out.append(Violation('final-construct:client-registered-afterwards', f'registry lists {got}, registered before FinalConstruct succeeded: {sorted(before)}'))
        return out
    mon = h.first('monitor_registered')
    mon_ok = mon is not None and mon['result'] == 'ok'
    if mon_ok and mon['fcstate'] == '2':
        out.append(Violation('final-construct:client-registered-afterwards', f'by the log sink: {mon}'))
    mon_unbound = mon_ok and mon['fcstate'] in ('0', '1') and bool(mb.mc and mb.mc['out_events'])
    if run['unbinds'] or mon_unbound:
        if run['unbinds']:
            side, ev, cl = run['unbinds'][0]
            e = mb.events[ev]
            p = mb.ports[e['port']]
            what = f"{p['dir']} {p['sem']} port {p['name']} {e['dir']}-event {e['name']} ({'user side' if side == 0 else 'component side'}" + (f', client {cl})' if cl >= 0 else ')')
        else:
            what = (f"client 'monitor', registered by the user's log sink on its message #{run.get('reentry')} "
                    f"({'before' if mon['fcstate'] == '0' else 'during'} FinalConstruct), has unbound out-events")
        if fc['result'] != 'throw':
            out.append(Violation('final-construct:unbound-event-accepted', what))
        elif fc.get('exc') != 'binding_error':
            out.append(Violation('final-construct:failed-without-binding-error', f"{what}: {fc.get('what')}"))
        else:
            retry = h.first('fc_retry')
            if retry is not None and retry['result'] != 'throw':
                out.append(Violation('final-construct:unbound-event-accepted-on-retry', what))
    else:
        if fc['result'] != 'ok':
            out.append(Violation('final-construct:all-bound-rejected', fc.get('what', '?')))
        elif fc.get('parent_ok') != '1':
            out.append(Violation('final-construct:parent-not-recorded', f"parent mode {run['parent']}"))
        else:
            again = h.first('fc_again')
            if again is not None and (again['result'] != 'ok' or again.get('parent_ok') != '1'):
                out.append(Violation('final-construct:parent-not-recorded', f"second FinalConstruct with the other parent argument: {again}"))
            if mb.mc and run['probes']:
                pr = h.first('probe_register_after_fc')
                if pr is None or pr['result'] != 'throw':
                    out.append(Violation('final-construct:client-registered-afterwards', str(pr)))
                pa = h.first('probe_register_again')
                if pa is not None and pa['result'] != 'throw':
                    out.append(Violation('final-construct:client-registered-afterwards', f'second attempt with the refused identifier: {pa}'))
                ia = h.first('client_ids_after_probe')
                if ia is not None:
                    from .tapes import quote_id
                    got = sorted([] if ia['ids'] == '-' else ia['ids'].split(','))
                    want = sorted(quote_id(n) for n in (run.get('client_names') or []))
                    if got != want and not (mon_ok and sorted(want + ['monitor']) == got):
                        out.append(Violation('final-construct:client-registered-afterwards', f'registry after the refused registration lists {got}, registered before FinalConstruct: {want}'))
                if run['clients'] > 0:
                    pf = h.first('probe_fetch_existing')
                    if pf is None or pf['result'] != 'ok' or pf.get('same') != '1':
                        out.append(Violation('final-construct:registered-client-port-unreachable', str(pf)))
    return out


# ------------------------------------------------------------------------------------------------ C04
def mc_deliveries(h: History, c):
    """Outer handler executions that are deliveries of the inner out-event call c (synchronous, same task)."""
    ret_seq = c['ret']['seq'] if c['ret'] else 10 ** 12
    return [hd for hd in h.handlers if hd['side'] == 'o' and hd['ev'] == c['ev'] and hd['task'] == c['task']
            and c['seq'] < hd['seq'] < ret_seq and hd['in'] == c['in']]


def client_registration(h: History, run):
    """Every registered client identifier owns its own port object and is listed by the helper accessor."""
    out = []
    for r in h.by_kind.get('client_ports', []):
        if r['distinct'] != '1':
            out.append(Violation('multiclient:clients-share-a-port-object', f"identifiers {run.get('client_names')}"))
    mon = h.first('monitor_registered')
    for r in h.by_kind.get('client_ids', []):
        from .tapes import quote_id
        got = sorted([] if r['ids'] == '-' else r['ids'].split(','))
        want = sorted([quote_id(n) for n in (run.get('client_names') or [f'client{k}' for k in range(run['clients'])])] +
                      (['monitor'] if mon is not None and mon['result'] == 'ok' and mon['seq'] < r['seq'] else []))
        if got != want:
            out.append(Violation('multiclient:registered-identifiers-not-listed', f'registered {want}, listed {got}'))
    return out


def judge_c04(mb, run, result):
    """Reference model of the statement: S = set of clients whose most recent completed claim was answered with the
    granting reply and who have not released since.  An out-event raised while no claim/release call is in flight
    must reach exactly one member of S (nobody when S is empty)."""
    v = basic(result)
    if v:
        return v
    h = History(mb, run, result)
    ctor, fc = h.first('shell_ctor'), h.first('fc')
    if ctor is None or ctor['result'] != 'ok' or fc is None or fc['result'] != 'ok':
        return [Violation('construction:valid-world-rejected', f'{ctor} {fc}')]
    mc = mb.mc
    out = client_registration(h, run) + replaced_handlers(h)
    calls = sorted(h.calls.values(), key=lambda c: c['seq'])
    ctl = [c for c in calls if c['side'] == 'o' and c['ev'] in (mc['claim'], mc['release'])]
    # timeline of the literal predicate
    events_tl = []
    for c in ctl:
        end = c['ret']['seq'] if c['ret'] else 10 ** 12
        events_tl.append((c['seq'], end, c))

    def state_at(seq):
        """Two readings of the statement are both accepted (the check must not demand more than either):
        (A) a single holder: the client of the most recent granted claim, until that client releases;
        (B) the set of clients that were granted a claim and have not released since.
        They differ only after the component granted a second client without a release by the first one (possible
        after a release by a non-holder).  Returns None while a claim/release call is in flight."""
        granted = {}
        holder = None
        for start, end, c in events_tl:
            if end >= seq and start < seq:
                return None
            if end < seq:
                x = c['cl']
                if c['ev'] == mc['claim']:
                    # "claims answered otherwise never change who is selected": only granting replies count
                    if c['ret']['reply'] == mc['grant']:
                        granted[x] = True
                        holder = x
                else:
                    granted[x] = False
                    if holder == x:
                        holder = None
        acceptable = {x for x, g in granted.items() if g}
        acceptable.add(holder)   # None = nobody
        if not any(granted.values()):
            acceptable.add(None)
        return acceptable

    rogue_seen = False
    for c in calls:
        if not (c['side'] == 'i' and c['ev'] in mc['out_events']):
            continue
        e = mb.events[c['ev']]
        name = f"{mb.ports[e['port']]['name']}.{e['name']}"
        dels = mc_deliveries(h, c)
        recipients = [d['cl'] for d in dels]
        if len(recipients) > 1:
            out.append(Violation('multiclient:out-event-delivered-more-than-once', f'{name} -> clients {recipients}', c['seq']))
            continue
        s = state_at(c['seq'])
        if s is None:
            continue
        got = recipients[0] if recipients else None
        if got in s:
            continue
        holders = sorted(x for x in s if x is not None)
        if got is None:
            out.append(Violation('multiclient:out-event-lost', f'{name}: holder(s) {holders} received nothing', c['seq']))
        elif not holders:
            out.append(Violation('multiclient:out-event-delivered-without-holder', f'{name} -> client {got}', c['seq']))
        else:
            out.append(Violation('multiclient:out-event-to-wrong-client', f'{name} -> client {got}, holder(s) {holders}', c['seq']))
    # every client in-event reaches the component through the dispatcher, reply returned to that client
    vs, match_c = routing(h, lambda c: c['side'] == 'i' and c['ev'] in mc['out_events'])
    out += [x for x in vs if not x.cls.startswith('routing:phantom')]
    sp = h.shell_pump()
    for i, c in enumerate(calls):
        if c['side'] == 'o' and mb.events[c['ev']]['port'] == mc['port'] and match_c[i] >= 0:
            hd = h.handlers[match_c[i]]
            if hd['disp'] != sp:
                out.append(Violation('multiclient:in-event-not-through-dispatcher', mb.events[c['ev']]['name'], c['seq']))
    return _dedup(out)


def c04_site(mb, run, result):
    """Classify what the failing history contains (for matching known findings by history class, never by seed)."""
    h = History(mb, run, result)
    mc = mb.mc
    holder = None
    rogue = False
    for c in sorted(h.calls.values(), key=lambda c: c['seq']):
        if c['side'] != 'o' or not c['ret']:
            continue
        if c['ev'] == mc['claim'] and c['ret']['reply'] == mc['grant']:
            holder = c['cl']
        elif c['ev'] == mc['release']:
            if holder is not None and c['cl'] != holder:
                rogue = True
            elif c['cl'] == holder:
                holder = None
    return 'release-by-non-holder' if rogue else 'no-rogue-release'


# ------------------------------------------------------------------------------------------------ C11 (shell world)
def c11_windows(h: History):
    """[(client, open seq, close seq)] - a window opens when the granting reply has been RETURNED to the client's
    thread and closes when that client INVOKES release."""
    wins = []
    open_ = {}
    for r in h.result.records:
        if r['kind'] == 'window_open':
            open_[int(r['cl'])] = r['seq']
        elif r['kind'] == 'window_close':
            cl = int(r['cl'])
            if cl in open_:
                wins.append((cl, open_.pop(cl), r['seq']))
    for cl, s in open_.items():
        wins.append((cl, s, 10 ** 12))
    return wins


def judge_c11(mb, run, result):
    v = basic(result)
    if v:
        return v
    h = History(mb, run, result)
    ctor, fc = h.first('shell_ctor'), h.first('fc')
    if ctor is None or ctor['result'] != 'ok' or fc is None or fc['result'] != 'ok':
        return [Violation('construction:valid-world-rejected', f'{ctor} {fc}')]
    mc = mb.mc
    out = client_registration(h, run) + replaced_handlers(h)
    calls = sorted(h.calls.values(), key=lambda c: c['seq'])
    vs, match_c = routing(h, lambda c: c['side'] == 'i' and c['ev'] in mc['out_events'])
    out += [x for x in vs if not x.cls.startswith('routing:phantom')]
    sp = h.shell_pump()
    for i, c in enumerate(calls):
        if c['side'] == 'o' and match_c[i] >= 0 and h.handlers[match_c[i]]['disp'] != sp:
            out.append(Violation('concurrency:event-handled-outside-dispatcher', mb.events[c['ev']]['name'], c['seq']))
    # component-side truth: who has been granted and has not been released yet, in dispatcher order
    timeline = []
    for i, c in enumerate(calls):
        if c['side'] == 'o' and match_c[i] >= 0:
            hd = h.handlers[match_c[i]]
            if c['ev'] == mc['claim'] and hd['reply'] == mc['grant']:
                timeline.append((hd['seq'], 'grant', c['cl']))
            elif c['ev'] == mc['release']:
                timeline.append((hd['seq'], 'release', c['cl']))
    timeline.sort()
    judged = []   # (client, window open, window close, taint seq)
    for cl, s, e_ in c11_windows(h):
        g0 = max([t for t, k, x in timeline if k == 'grant' and x == cl and t < s], default=None)
        if g0 is None:
            continue
        outstanding = set()
        taint = 10 ** 12
        for t, k, x in timeline:
            if k == 'grant':
                outstanding.add(x)
            else:
                outstanding.discard(x)
            # A window is judged only while exactly its owner has been granted and not released.  After a release
            # by a non-holder made the arbiter forget the holder, a second client can be granted without a release
            # in between; the statement does not single out one of them.
            if t >= g0 and outstanding != {cl}:
                taint = t
                break
        judged.append((cl, s, e_, taint))
    for c in calls:
        if not (c['side'] == 'i' and c['ev'] in mc['out_events']):
            continue
        e = mb.events[c['ev']]
        name = f"{mb.ports[e['port']]['name']}.{e['name']}"
        dels = mc_deliveries(h, c)
        recipients = [d['cl'] for d in dels]
        if len(recipients) > 1:
            out.append(Violation('concurrency:out-event-delivered-more-than-once', f'{name} -> clients {recipients}', c['seq']))
            continue
        end = c['ret']['seq'] if c['ret'] else 10 ** 12
        holders = [cl for cl, s, e_, taint in judged if s < c['seq'] < e_ and end < taint]
        if len(holders) != 1:
            continue   # claim or release in flight, nobody holds, or double grant: the statement is silent
        got = recipients[0] if recipients else None
        if got in holders:
            continue
        if got is None:
            out.append(Violation('concurrency:holder-lost-out-event', f'{name}: client {holders[0]} holds the claim, nobody received it', c['seq']))
        else:
            out.append(Violation('concurrency:out-event-to-non-holder', f'{name} -> client {got}, holder {holders[0]}', c['seq']))
    return _dedup(out)


def judge_static_c09(mb, name, ok):
    if name == 'locator_accessor_is_reference' and not ok:
        return [Violation('facilities:locator-accessor-returns-a-copy', 'Locator() does not return a reference to the locator the shell owns')]
    return []
