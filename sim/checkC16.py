"""C16: parses are isolated and repeatable - histories of parser constructions, loads (over a fake file system with
I/O faults), process() calls and crash-interrupted parses, every result compared with an isolated fresh-process
parse of the document the instance holds."""
import json
import os
import subprocess
import sys

import orjson

from . import engine, modelgen, worldB
from .rng import Rng, derive
from .snapshot import snapshot

HISTORY_CHILD = os.path.join(os.path.dirname(os.path.abspath(__file__)), 'child_history.py')
PATHS = ['/models/a.json', '/models/b.json', '/work/c.json']


# ------------------------------------------------------------------------------------------------ universe
def gen_universe(seed, u):
    rng = Rng(derive(seed, 'C16', 'universe', u))
    docs = []
    base = None
    for k in range(3):
        if k == 1:
            from .checkC12 import near_copy
            spec = near_copy(rng.fork('copy'), base)   # same names as document 0, different bodies
        else:
            spec = modelgen.gen_spec(rng.fork('spec', k))
        if k == 0:
            base = spec
        ast = modelgen.to_json_ast(spec, rng.fork('json', k))
        docs.append({'kind': 'well-formed', 'text': orjson.dumps(ast).decode('utf-8')})
        if k < 2:
            bad = worldB.fault_document(rng.fork('fault', k), ast)
            docs.append({'kind': 'structurally-faulted', 'text': orjson.dumps(bad).decode('utf-8')})
    docs.append({'kind': 'empty-root', 'text': '{"<class>": "root", "elements": [], "working-directory": "/w"}'})
    docs.append({'kind': 'not-an-object', 'text': '[1, 2, 3]'})
    docs.append({'kind': 'not-json', 'text': docs[0]['text'][:max(1, len(docs[0]['text']) // 3)]})
    return {'u': u, 'docs': docs}


def compute_refs(universe):
    """One fresh interpreter per document (and one for 'no document')."""
    refs = {}
    for i, d in enumerate(universe['docs']):
        refs[str(i)] = worldB.reference('parse', [{'id': i, 'json_ast': d['text']}])[0]['result']
    refs['none'] = worldB.reference('parse', [{'id': 'none', 'json_ast': None}])[0]['result']
    return refs


def gen_history(rng: Rng, universe, faulty=True):
    nd = len(universe['docs'])
    ops = []
    n_inst = 0
    for _ in range(rng.between(3, 18)):
        kind = rng.weighted([(4, 'new'), (1, 'new_empty'), (3, 'load'), (8, 'process'), (1, 'read'), (1, 'replace')])
        if kind == 'new' or n_inst == 0:
            ops.append(['new', rng.below(nd)])
            n_inst += 1
        elif kind == 'new_empty':
            ops.append(['new_empty'])
            n_inst += 1
        elif kind == 'load':
            fault = 'none'
            if faulty and rng.chance(35):
                fault = rng.choice(['ENOENT', 'EACCES', 'EIO', 'short'])
            ops.append(['load', rng.below(n_inst), rng.below(len(PATHS)), fault, rng.between(1, 400)])
        elif kind == 'process':
            crash = rng.between(1, 600) if (faulty and rng.chance(15)) else 0
            ops.append(['process', rng.below(n_inst), crash])
        elif kind == 'read':
            ops.append(['read', rng.below(n_inst)])
        else:
            ops.append(['replace', rng.below(len(PATHS)), rng.below(nd)])
    return ops


# ------------------------------------------------------------------------------------------------ machine
class Violation(Exception):
    def __init__(self, cls, detail, op_index):
        super().__init__(cls)
        self.cls, self.detail, self.op_index = cls, detail, op_index


def _counts(snap):
    try:
        return {k: len(v['$list']) for k, v in snap['fields'].items()}
    except Exception:  # pylint: disable=broad-except
        return {}


class Machine:
    def __init__(self, universe, refs, stats=None):
        from dznpy.json_ast import DznJsonAst
        self.DznJsonAst = DznJsonAst
        self.universe = universe
        self.refs = refs
        self.fs = worldB.SimFS()
        for i, p in enumerate(PATHS):
            self.fs.files[p] = universe['docs'][i % len(universe['docs'])]['text'].encode('utf-8')
        self.path_doc = {p: i % len(universe['docs']) for i, p in enumerate(PATHS)}
        worldB.install_fs(self.fs)
        self.inst = []       # [parser, possible docs (list of doc index or None), processed_before]
        self.results = []    # (owner index, result object, expected snapshot json)
        self.stats = stats if stats is not None else {}

    def _count(self, k):
        self.stats[k] = self.stats.get(k, 0) + 1

    def close(self):
        worldB.uninstall_fs()

    def apply(self, idx, op):
        kind = op[0]
        if kind == 'new':
            d = op[1] % len(self.universe['docs'])
            ref = self.refs[str(d)]
            try:
                p = self.DznJsonAst(self.universe['docs'][d]['text'].encode('utf-8'))
            except Exception as exc:  # pylint: disable=broad-except
                got = [type(exc).__module__ + '.' + type(exc).__name__, str(exc)]
                if 'construct_error' not in ref:
                    raise Violation('parse:construction-fails-unlike-isolated', f'{got}', idx)
                if got[0] != ref['construct_error'][0]:
                    raise Violation('parse:construction-error-differs-from-isolated', f"{got} vs {ref['construct_error']}", idx)
                self._count('constructor_rejected_non_json')
                return
            if 'construct_error' in ref:
                raise Violation('parse:construction-succeeds-unlike-isolated', str(ref['construct_error']), idx)
            self.inst.append([p, [d], 0])
        elif kind == 'new_empty':
            self.inst.append([self.DznJsonAst(), [None], 0])
        elif kind == 'load':
            if not self.inst:
                return
            ent = self.inst[op[1] % len(self.inst)]
            path = PATHS[op[2] % len(PATHS)]
            fault = op[3]
            self.fs.next_fault = None if fault == 'none' else (('short', op[4]) if fault == 'short' else fault)
            try:
                ent[0].load_file(path)
            except Exception:  # pylint: disable=broad-except
                # a failed load leaves the instance with its old document or with none (both accepted)
                ent[1] = list(dict.fromkeys(ent[1] + [None]))
                self._count('load_failed:' + fault)
            else:
                d = self.path_doc[path]
                if fault == 'short':
                    # a short read that still happens to be valid JSON cannot occur for our documents (object cut
                    # mid-way), but do not rely on it: accept both
                    ent[1] = list(dict.fromkeys(ent[1] + [d]))
                else:
                    ent[1] = [d]
                self._count('load_ok')
            finally:
                self.fs.next_fault = None
        elif kind == 'process':
            if not self.inst:
                return
            owner = op[1] % len(self.inst)
            ent = self.inst[owner]
            crash = op[2]
            try:
                if crash:
                    with worldB.CrashTracer(crash) as tr:
                        res = ent[0].process()
                    if not tr.fired:
                        self._count('crash_point_beyond_end')
                else:
                    res = ent[0].process()
            except worldB.SimInterrupt:
                self._count('process_interrupted')
                ent[2] += 1
                return
            except Exception as exc:  # pylint: disable=broad-except
                got = {'error': [type(exc).__module__ + '.' + type(exc).__name__, str(exc)]}
            else:
                got = {'snapshot': snapshot(res)}
            again = ent[2] > 0
            ent[2] += 1
            self._judge(idx, owner, ent, got, again)
            if 'snapshot' in got:
                self.results.append((owner, res, json.dumps(got['snapshot'], sort_keys=True)))
                self._count('process_ok_again' if again else 'process_ok_first')
            else:
                self._count('process_failed_again' if again else 'process_failed_first')
        elif kind == 'read':
            if self.inst:
                _ = self.inst[op[1] % len(self.inst)][0].file_contents
        elif kind == 'replace':
            path = PATHS[op[1] % len(PATHS)]
            d = op[2] % len(self.universe['docs'])
            self.fs.files[path] = self.universe['docs'][d]['text'].encode('utf-8')
            self.path_doc[path] = d
            self._count('file_replaced_between_loads')
        # results handed out earlier to OTHER instances must not change
        if kind in ('process', 'load', 'new'):
            cur = None
            if kind in ('process', 'load') and self.inst:
                cur = op[1] % len(self.inst)
            for owner, obj, expected in self.results:
                if owner != cur and json.dumps(snapshot(obj), sort_keys=True) != expected:
                    raise Violation('parse:earlier-result-of-another-instance-changed', f'result of instance {owner} changed by op {op}', idx)

    def _judge(self, idx, owner, ent, got, again):
        cands = [self.refs['none' if d is None else str(d)] for d in ent[1]]
        for ref in cands:
            if 'snapshot' in got and 'snapshot' in ref and got['snapshot'] == ref['snapshot']:
                return
            if 'error' in got and 'error' in ref and got['error'] == ref['error']:
                return
        ref = cands[0]
        who = f'instance {owner} holding document {ent[1]}' + (' (processed before)' if again else '')
        if 'snapshot' in got and 'snapshot' in ref:
            gc, rc = _counts(got['snapshot']), _counts(ref['snapshot'])
            if any(gc.get(k, 0) > rc.get(k, 0) for k in rc) and all(gc.get(k, 0) >= rc.get(k, 0) for k in rc):
                raise Violation('parse:accumulated-declarations', f'{who}: counts {gc} vs isolated parse {rc}', idx)
            raise Violation('parse:result-differs-from-isolated-parse', f'{who}: counts {gc} vs {rc}', idx)
        if 'error' in got and 'snapshot' in ref:
            raise Violation('parse:fails-unlike-isolated-parse', f"{who}: {got['error']}", idx)
        if 'snapshot' in got:
            raise Violation('parse:succeeds-unlike-isolated-parse', f"{who}: isolated parse fails with {ref.get('error')}", idx)
        raise Violation('parse:error-differs-from-isolated-parse', f"{who}: {got['error']} vs {ref.get('error')}", idx)


def run_histories(universe, refs, histories, stats=None):
    import contextlib
    import io
    with contextlib.redirect_stdout(io.StringIO()):
        return _run_histories(universe, refs, histories, stats)


def _run_histories(universe, refs, histories, stats=None):
    """Execute histories back to back in THIS interpreter; returns None or a violation dict."""
    for hi, ops in enumerate(histories):
        m = Machine(universe, refs, stats)
        try:
            for i, op in enumerate(ops):
                m.apply(i, op)
        except Violation as v:
            return {'class': v.cls, 'detail': v.detail, 'history': hi, 'op': v.op_index}
        finally:
            m.close()
    return None


# ------------------------------------------------------------------------------------------------ fresh-process execution
def run_in_fresh_process(world, universe, refs, histories, timeout=600):
    req = {'world': world, 'universe': universe, 'refs': refs, 'histories': histories}
    p = subprocess.run([sys.executable, HISTORY_CHILD], input=json.dumps(req).encode('utf-8'), stdout=subprocess.PIPE,
                       stderr=subprocess.PIPE, env=dict(os.environ, PYTHONHASHSEED='0'), timeout=timeout)
    if p.returncode != 0:
        raise RuntimeError('history child failed: ' + p.stderr.decode()[-2000:])
    return json.loads(p.stdout)['violation']


def shrink(world, universe, refs, histories, want, budget=60):
    """Minimise in fresh interpreters: drop whole histories, then single ops; the violation class must persist."""
    spent = [0]

    def bad(hs):
        if spent[0] >= budget:
            return False
        spent[0] += 1
        v = run_in_fresh_process(world, universe, refs, hs)
        return v is not None and v['class'] == want

    cur = [list(h) for h in histories]
    if not bad(cur):
        return None
    i = 0
    while i < len(cur) and len(cur) > 1:
        cand = cur[:i] + cur[i + 1:]
        if bad(cand):
            cur = cand
        else:
            i += 1
    for hi in range(len(cur)):
        oi = len(cur[hi]) - 1
        while oi >= 0:
            cand = [list(h) for h in cur]
            del cand[hi][oi]
            if bad(cand):
                cur = cand
            oi -= 1
    return cur


# ------------------------------------------------------------------------------------------------ worker / check
def universe_worker(job):
    return engine.run_isolated(_universe_worker, job)


def _universe_worker(job):
    from . import dznbuild
    dznbuild.ensure_repo_dznpy()
    seed, u, n_hist = job['seed'], job['u'], job['n_hist']
    universe = gen_universe(seed, u)
    refs = compute_refs(universe)
    rng = Rng(derive(seed, 'C16', 'histories', u))
    stats = {}
    digests = set()
    nontrivial = set()
    done = []
    violation = None
    sample = None
    for h in range(n_hist):
        ops = gen_history(rng.fork('h', h), universe, faulty=bool(h % 2))
        v = run_histories(universe, refs, [ops], stats)
        done.append(ops)
        d = json.dumps(ops)
        digests.add(d)
        seen = set()
        reused = False
        for op in ops:
            if op[0] == 'process':
                if op[1] in seen:
                    reused = True
                seen.add(op[1])
        if reused or sum(1 for o in ops if o[0] in ('new', 'new_empty')) > 1:
            nontrivial.add(d)
        if sample is None and reused:
            sample = {'universe': u, 'documents': [x['kind'] for x in universe['docs']], 'ops': ops}
        if v and violation is None:
            small = shrink('C16', universe, refs, [ops], v['class'])
            if small is None:
                small = shrink('C16', universe, refs, done, v['class'])   # needs state left behind by earlier histories
            final = run_in_fresh_process('C16', universe, refs, small) if small is not None else None
            if final is None:
                # The real library returned a wrong result here, in this process, for exactly the recorded calls, but it
                # does not do so again in fresh interpreters: its behaviour depends on process state that the calls do
                # not determine (object addresses, allocator reuse, ...).  That dependence is itself what the property
                # excludes, so it is reported - flagged, with everything this process executed as the replay.
                violation = {'class': v['class'], 'detail': v['detail'] + ' [observed in the exploring process; did not recur in '
                             'fresh interpreters: the tree under test depends on process state outside the recorded calls]',
                             'replay': {'world': 'B', 'check': 'C16', 'universe': universe, 'histories': done,
                                        'reproducible': False, 'observed': v}}
                break
            violation = {'class': final['class'], 'detail': final['detail'],
                         'replay': {'world': 'B', 'check': 'C16', 'universe': universe, 'histories': small}}
            break
    return {'u': u, 'histories': len(done), 'ops': sum(len(x) for x in done), 'stats': stats, 'digests': sorted(digests),
            'nontrivial': sorted(nontrivial), 'violation': violation, 'sample': sample, 'refs': len(refs)}


def run_check(tier, seed, n_universes, n_hist):
    rep = engine.Report('C16', 'exploration', tier, seed)
    rep.assumptions = ['documents are printed by the harness generator (well-formed models, structurally faulted variants, '
                       'non-objects, truncated text); the reference is a fresh interpreter per document',
                       'a failed load may leave the instance with its old document or with none (both accepted)']
    results = engine.run_parallel(universe_worker, [{'seed': seed, 'u': u, 'n_hist': n_hist} for u in range(n_universes)])
    total_h = total_ops = 0
    stats = {}
    digests, nontrivial = set(), set()
    samples = []
    import hashlib
    rd = hashlib.sha256()
    for status, r in results:
        if status != 'ok':
            rep.harness_errors.append(r)
            continue
        rd.update(json.dumps([r['u'], r['digests'], sorted(r['stats'].items()), r['violation'] and r['violation']['class']]).encode())
        total_h += r['histories']
        total_ops += r['ops']
        digests.update(r['digests'])
        nontrivial.update(r['nontrivial'])
        for k, v in r['stats'].items():
            stats[k] = stats.get(k, 0) + v
        if r['sample'] and len(samples) < 2:
            samples.append(r['sample'])
        if r['violation']:
            rep.add_violation(r['violation']['class'], r['violation']['detail'], r['violation']['replay'])
    faults = {k: v for k, v in stats.items() if k.startswith('load_failed') or k in ('process_interrupted', 'file_replaced_between_loads', 'constructor_rejected_non_json')}
    probes = {k: v for k, v in stats.items() if k not in faults}
    rep.coverage = {
        'evaluations': total_h, 'distinct_nontrivial': len(nontrivial),
        'rule': 'history = 3-18 ops (new(doc), new(), load_file over the fake file system with ENOENT/EACCES/EIO/short-read faults, '
                'process() optionally crashed at its k-th traced line, file replaced) over a universe of 8 documents; '
                'non-trivial = a parser instance is processed more than once or several instances interleave; distinct by op list',
        'samples': samples, 'universes': n_universes, 'operations': total_ops, 'fault_kinds_fired': faults, 'probes': probes,
        'simulated_time': 'not applicable (no clock); logical operations only', 'distinct_interleavings': len(digests),
        'interleaving_measure': 'distinct operation sequences over the instance pool',
        'run_digest': rd.hexdigest(),
        'seeds': f'VERIF_SEED={seed}; universes SHA256(seed/C16/universe/<u>), u<{n_universes}',
    }
    return rep.finish()


def replay(path):
    from . import dznbuild
    dznbuild.ensure_repo_dznpy()
    rp = json.load(open(path))
    refs = compute_refs(rp['universe'])
    v = run_in_fresh_process('C16', rp['universe'], refs, rp['histories'])
    if v is None and rp.get('reproducible') is False:
        # recorded as dependent on process state: re-create the exploring conditions (forked child of this process,
        # all histories in order) - the closest an address-dependent behaviour can be approached
        v = engine.run_isolated(_replay_in_fork, {'universe': rp['universe'], 'refs': refs, 'histories': rp['histories']})
        if v is None:
            print(f"replay {path}: the recorded violation (class={rp['observed']['class']}) was flagged as not reproducible when it "
                  'was found and did not recur in this execution either')
    if v:
        print(f"  found class={v['class']} detail={v['detail']}")
        print(f'VIOLATION property=C16 replay={path}')
        return engine.EXIT_VIOLATION
    print(f'replay {path}: property held')
    return engine.EXIT_OK


def _replay_in_fork(job):
    found = None
    for ops in job['histories']:
        v = run_histories(job['universe'], job['refs'], [ops], {})
        if v and found is None:
            found = v
    return found
