"""Driver for the World A checks (C01, C02, C04, C09, C10, C11): per model seed generate, build with the real
dznpy, compile, simulate a batch of tapes, judge every history, shrink and replay violations."""
import hashlib
import json
import os
import shutil
import time

import orjson

from . import cfggen, cxxgen, engine, modelgen, oracles, tapes, worldA
from .rng import Rng, derive

CACHE_DIR = os.path.join(worldA.BUILD_DIR, 'cache')


# ------------------------------------------------------------------------------------------------ model build (+cache)
def build_model(spec, cfgspec, json_bytes, flavor, use_cache):
    """Generate with the real dznpy and compile.  With use_cache the binary is kept in a content-addressed cache
    whose key covers every compiler input (generated files, mock header, glue, harness sources, flags)."""
    files = worldA.generate_files(spec, cfgspec, json_bytes)
    ccfg = worldA.companion_cfg(spec, cfgspec)
    cfiles = worldA.generate_files(spec, ccfg, json_bytes) if ccfg is not None else None
    if not use_cache:
        return worldA.prepare_model(spec, cfgspec, json_bytes, flavor, engine.SCRATCH_ROOT, files=files, companion_files=cfiles), False
    h = hashlib.sha256()
    for name, contents, _ in files + (cfiles or []):
        h.update(name.encode() + b'\0' + contents.encode('utf-8') + b'\0')
    h.update(cxxgen.gen_model_header(spec).encode())
    h.update(cxxgen.gen_glue(spec, cfgspec).encode())
    h.update(flavor.encode())
    for f in ('kernel.c', 'kernel.h', 'harness.cc', 'harness.hh', 'simtypes.hh', 'dzn/pump.hh', 'dzn/locator.hh', 'dzn/meta.hh', 'dzn/runtime.hh'):
        h.update(open(os.path.join(worldA.CXX_DIR, f), 'rb').read())
    h.update(repr((worldA.COMMON, worldA.FLAVORS[flavor], worldA.LINK, worldA.CXX)).encode())
    key = h.hexdigest()[:24]
    cdir = os.path.join(CACHE_DIR, key)
    done = os.path.join(cdir, 'done.json')
    if os.path.exists(done):
        try:
            os.utime(cdir)
        except OSError:
            pass
        mb = worldA.ModelBuild(cdir, spec, cfgspec, flavor)
        mb.files = files
        mb.static_facts = json.load(open(done))['static_facts']
        return mb, True
    mb = worldA.prepare_model(spec, cfgspec, json_bytes, flavor, engine.SCRATCH_ROOT, files=files, companion_files=cfiles)
    try:
        os.makedirs(CACHE_DIR, exist_ok=True)
        tmp = cdir + f'.tmp{os.getpid()}'
        os.makedirs(tmp, exist_ok=True)
        shutil.copy2(mb.binary, os.path.join(tmp, 'sim'))
        with open(os.path.join(tmp, 'done.json'), 'w') as f:
            json.dump({'static_facts': mb.static_facts}, f)
        try:
            os.rename(tmp, cdir)
        except OSError:
            shutil.rmtree(tmp, ignore_errors=True)
    except OSError:
        pass
    return mb, False


def prune_cache(keep=260, trigger=360):
    """The content-addressed cache only grows (every harness or generator change yields new keys): drop the oldest."""
    try:
        entries = [os.path.join(CACHE_DIR, d) for d in os.listdir(CACHE_DIR)]
    except OSError:
        return
    if len(entries) <= trigger:
        return
    entries.sort(key=lambda d: os.path.getmtime(d))
    for d in entries[:len(entries) - keep]:
        shutil.rmtree(d, ignore_errors=True)


def release_model(mb):
    if not mb.workdir.startswith(CACHE_DIR):
        mb.cleanup()


# ------------------------------------------------------------------------------------------------ digests / stats
def history_digest(result):
    h = hashlib.sha256()
    for line in result.raw:
        h.update(line.encode())
        h.update(b'\n')
    return h.hexdigest()[:16]


def cross_task(result):
    """A run is non-trivial when at least one handler executed on another task than the one that made the call."""
    open_calls = {}
    for r in result.records:
        if r['kind'] == 'call':
            open_calls.setdefault(r['ev'], []).append(r['task'])
        elif r['kind'] == 'hdl':
            callers = open_calls.get(r['ev'])
            if callers and r['task'] not in callers:
                return True
    return False


def decode_sample(mb, run, result, limit=40):
    ev = mb.events
    ports = mb.ports
    out = []
    for r in result.records[:limit]:
        if r['kind'] in ('call', 'hdl', 'ret'):
            e = ev[int(r['ev'])]
            name = f"{ports[e['port']]['name']}.{e['name']}"
            extra = ' '.join(f'{k}={v}' for k, v in r.items() if k not in ('seq', 'task', 'kind', 'ev'))
            out.append(f"{r['seq']} {r['task']}: {r['kind']} {name} {extra}")
        else:
            extra = ' '.join(f'{k}={v}' for k, v in r.items() if k not in ('seq', 'task', 'kind'))
            out.append(f"{r['seq']} {r['task']}: {r['kind']} {extra}")
    return {'model': '.'.join(mb.spec['component']['ns'] + [mb.spec['component']['name']]),
            'configuration': {k: mb.cfgspec[k] for k in ('provides', 'requires', 'multiclient', 'origin', 'prefix')},
            'tasks': [{'name': t['name'], 'ops': t['ops'][:12]} for t in run['tasks']],
            'policy': run['policy'], 'history_head': out}


# ------------------------------------------------------------------------------------------------ shrinking
def _violates(mb, run, judge, want_class):
    res = worldA.run_tapes(mb, tapes.render(run))[0]
    try:
        vs = judge(mb, run, res)
    except worldA.HarnessError:
        return None, None
    for v in vs:
        if v.cls == want_class:
            return v, res
    return None, res


def shrink(mb, run, judge, want_class, budget=120):
    """Greedy minimisation: drop tasks, drop ops, drop scripted follow-ups, then replace schedule decisions by the
    default policy.  The violation class must persist.  Returns (minimal run with explicit schedule, result)."""
    spent = [0]

    def attempt(cand):
        if spent[0] >= budget:
            return None, None
        spent[0] += 1
        return _violates(mb, cand, judge, want_class)

    best = json.loads(json.dumps(run))
    v, res = attempt(best)
    if v is None:
        return None, None
    # 1. whole tasks
    for ti in range(len(best['tasks']) - 1, -1, -1):
        cand = json.loads(json.dumps(best))
        del cand['tasks'][ti]
        if not cand['tasks']:
            continue
        cv, cres = attempt(cand)
        if cv is not None:
            best, v, res = cand, cv, cres
    # 2. single ops (from the end)
    for ti in range(len(best['tasks'])):
        oi = len(best['tasks'][ti]['ops']) - 1
        while oi >= 0:
            cand = json.loads(json.dumps(best))
            del cand['tasks'][ti]['ops'][oi]
            cv, cres = attempt(cand)
            if cv is not None:
                best, v, res = cand, cv, cres
            oi -= 1
    # 3. scripted follow-ups
    for si in range(len(best['scripts'])):
        if best['scripts'][si][4]:
            cand = json.loads(json.dumps(best))
            cand['scripts'][si][4] = []
            cv, cres = attempt(cand)
            if cv is not None:
                best, v, res = cand, cv, cres
    # 4. schedule: make it explicit, then default as many decisions as possible (chunks, then singles)
    if res is not None and res.sched:
        best['sched'] = list(res.sched)
        cv, cres = attempt(best)
        if cv is None:
            best['sched'] = None   # explicit replay did not reproduce: keep the seeded schedule (still deterministic)
        else:
            v, res = cv, cres
            chunk = max(1, len(best['sched']) // 2)
            while chunk >= 1 and spent[0] < budget:
                i = 0
                while i < len(best['sched']) and spent[0] < budget:
                    if any(x >= 0 for x in best['sched'][i:i + chunk]):
                        cand = json.loads(json.dumps(best))
                        for j in range(i, min(len(cand['sched']), i + chunk)):
                            cand['sched'][j] = -1
                        cv, cres = attempt(cand)
                        if cv is not None:
                            best, v, res = cand, cv, cres
                    i += chunk
                chunk //= 2
            while best['sched'] and best['sched'][-1] == -1:
                best['sched'].pop()
            if not best['sched']:
                best['sched'] = [-1]
    return best, res


# ------------------------------------------------------------------------------------------------ worker
def model_worker(job):
    """job: dict(prop, seed, tier, index, profile name).  Returns a JSON-able summary."""
    from . import profiles   # late import: profiles import this module
    prof = profiles.PROFILES[job['profile']]
    t0 = time.time()
    mseed = derive(job['seed'], 'modelA', prof['model_stream'], job['index'])
    rng = Rng(mseed)
    spec, cfgspec = prof['gen_model'](rng.fork('model'))
    json_bytes = orjson.dumps(modelgen.to_json_ast(spec, rng.fork('json')))
    summary = {'index': job['index'], 'model_seed': mseed, 'runs': 0, 'steps': 0, 'digests': [], 'nontrivial': [], 'ilhashes': [],
               'violations': [], 'stats': {}, 'samples': [], 'compile_s': 0.0, 'cached': False, 'pairs_total': 0, 'pairs_covered': 0,
               'cfg_kind': {'origin': cfgspec['origin'], 'mc': bool(cfgspec['multiclient']), 'kind': spec['component']['kind']}}
    replay_base = {'world': 'A', 'profile': job['profile'], 'flavor': prof['flavor'], 'spec': spec, 'cfgspec': cfgspec,
                   'json_ast': json_bytes.decode('utf-8'), 'model_seed': mseed, 'model_index': job['index']}
    try:
        mb, cached = build_model(spec, cfgspec, json_bytes, prof['flavor'], job.get('use_cache', True))
    except worldA.GenerationFailure as gf:
        summary['violations'].append({'class': 'generation-failure', 'detail': str(gf)[:300], 'site': '*',
                                      'replay': dict(replay_base, run=None, diagnostics=str(gf))})
        return summary
    except worldA.CompileFailure as cf:
        if cf.where == 'generated':
            summary['violations'].append({'class': 'compile-failure', 'detail': _first_error(cf.diagnostics), 'site': '*',
                                          'replay': dict(replay_base, run=None, diagnostics=cf.diagnostics)})
            return summary
        raise worldA.HarnessError(f'model {job["index"]}: harness compile failure ({cf.where}):\n{cf.diagnostics}')
    summary['cached'] = cached
    summary['compile_s'] = mb.compile_s
    try:
        for name, ok in sorted(mb.static_facts.items()):
            for v in prof['judge_static'](mb, name, ok):
                summary['violations'].append({'class': v.cls, 'detail': v.detail, 'site': '*', 'replay': dict(replay_base, run=None)})
        n_runs = job['runs_per_model']
        runs = prof['gen_runs'](rng.fork('runs'), mb, n_runs)
        stats = summary['stats']
        seen_classes = set()
        covered = set()

        def executed():
            # histories are parsed and judged in chunks: a thorough batch (tens of thousands of runs per model) would not
            # fit into memory at once
            chunk = 400
            for start in range(0, len(runs), chunk):
                part = runs[start:start + chunk]
                results = worldA.run_tapes(mb, ''.join(tapes.render(r) for r in part))
                if len(results) != len(part):
                    raise worldA.HarnessError(f'model {job["index"]}: {len(part)} tapes, {len(results)} results')
                yield from zip(part, results)

        for run, res in executed():
            vs = prof['judge'](mb, run, res)
            prof['collect'](mb, run, res, stats, covered)
            summary['runs'] += 1
            summary['steps'] += int(res.end.get('steps', 0))
            d = history_digest(res)
            summary['digests'].append(d)
            if prof['nontrivial'](mb, run, res):
                summary['nontrivial'].append(d)
            if 'ilhash' in res.end:
                summary['ilhashes'].append(res.end['ilhash'])
            if len(summary['samples']) < 1 and res.records and run['id'] != 'sweep':
                summary['samples'].append(decode_sample(mb, run, res))
            for v in vs:
                if v.cls in seen_classes:
                    continue
                seen_classes.add(v.cls)
                small, sres = shrink(mb, run, prof['judge'], v.cls)
                if small is None:
                    # Undefined behaviour in the program under test (dangling access): what a re-execution observes
                    # depends on what the dead memory holds.  Accept any violation of the re-execution for shrinking and
                    # keep the class of the first execution; if nothing reproduces, report the run unshrunk.
                    ub = ('sanitizer:memory-error', 'sanitizer:undefined-behaviour', 'sanitizer:tsan-other', 'crash:')
                    res2 = worldA.run_tapes(mb, tapes.render(run))[0]
                    try:
                        vs2 = prof['judge'](mb, run, res2)
                    except worldA.HarnessError:
                        vs2 = []
                    if v.cls.startswith(ub) or any(x.cls.startswith(ub) for x in vs2):
                        if vs2:
                            small, sres = shrink(mb, run, prof['judge'], vs2[0].cls)
                        if small is None:
                            small, sres = run, res
                if small is None:
                    # not reproducible on re-execution: the simulation would be non-deterministic
                    raise worldA.HarnessError(f'model {job["index"]} run {run["id"]}: violation {v.cls} did not reproduce on re-execution')
                detail = next((x.detail for x in prof['judge'](mb, small, sres) if x.cls == v.cls), v.detail)
                replay = dict(replay_base, run=small, history=sres.raw[:400], noise=sres.noise[:60])
                if len(summary['violations']) < 2:
                    # bounded model shrink (at most 8 recompiles): drop what the minimised run never touched
                    from . import modelshrink
                    try:
                        shrunk = modelshrink.shrink_model(
                            lambda sp, cf, js: worldA.prepare_model(sp, cf, js, prof['flavor'], engine.SCRATCH_ROOT),
                            spec, cfgspec, small, prof['judge'], v.cls, mb, sres, budget=8)
                    except Exception:  # pylint: disable=broad-except
                        shrunk = None
                    if shrunk:
                        sspec, scfg, sjson, srun, shist, snoise = shrunk
                        replay = dict(replay, spec=sspec, cfgspec=scfg, json_ast=sjson, run=srun, history=shist, noise=snoise,
                                      model_shrunk_from={'ports': len(spec['component']['ports']), 'interfaces': len(spec['interfaces'])})
                summary['violations'].append({'class': v.cls, 'detail': detail, 'site': prof['site'](mb, small, sres, v), 'replay': replay})
        summary['pairs_total'] = len(prof['pairs'](mb))
        summary['pairs_covered'] = len(covered & set(prof['pairs'](mb)))
    finally:
        release_model(mb)
    summary['wall_s'] = time.time() - t0
    return summary


def _first_error(diag):
    for line in diag.splitlines():
        if 'error' in line:
            return line.strip()[:300]
    return diag.strip().splitlines()[0][:300] if diag.strip() else 'compile failure'


# ------------------------------------------------------------------------------------------------ check entry
def run_check(prop, profile, level, tier, seed, n_models, runs_per_model, rule, assumptions, extra=None, pre_finish=None):
    rep = engine.Report(prop, level, tier, seed)
    rep.assumptions = assumptions
    worldA.ensure_runtime(PROFILE_FLAVOR(profile))
    prune_cache()
    # scratch trees (mutants, seeded changes) never pollute the cache
    use_cache = tier == 'quick' and not os.environ.get('VERIF_REPO_SRC') and os.environ.get('VERIF_NO_CACHE') != '1'
    jobs_ = [{'prop': prop, 'seed': seed, 'tier': tier, 'index': i, 'profile': profile, 'runs_per_model': runs_per_model,
              'use_cache': use_cache} for i in range(n_models)]
    results = engine.run_parallel(model_worker, jobs_)
    digests, nontrivial, ilh = set(), set(), set()
    total_runs = total_steps = 0
    stats = {}
    samples = []
    compile_s = 0.0
    pairs_total = pairs_cov = 0
    kinds = {}
    rd = hashlib.sha256()
    for status, s in results:
        if status != 'ok':
            rep.harness_errors.append(s)
            continue
        rd.update(json.dumps([s['index'], s['digests'], s['ilhashes'], sorted(v['class'] for v in s['violations'])]).encode())
        total_runs += s['runs']
        total_steps += s['steps']
        digests.update(s['digests'])
        nontrivial.update(s['nontrivial'])
        ilh.update(s['ilhashes'])
        compile_s += s['compile_s']
        pairs_total += s['pairs_total']
        pairs_cov += s['pairs_covered']
        k = json.dumps(s['cfg_kind'], sort_keys=True)
        kinds[k] = kinds.get(k, 0) + 1
        for key, val in s['stats'].items():
            if isinstance(val, dict):
                d = stats.setdefault(key, {})
                for k2, v2 in val.items():
                    d[k2] = d.get(k2, 0) + v2
            else:
                stats[key] = stats.get(key, 0) + val
        if len(samples) < 3:
            samples.extend(s['samples'][:1])
        for v in s['violations']:
            rep.add_violation(v['class'], v['detail'], v['replay'], v.get('site', '*'))
    rep.coverage = {
        'evaluations': total_runs, 'distinct_nontrivial': len(nontrivial), 'rule': rule, 'samples': samples,
        'models': n_models, 'model_kinds': kinds, 'runs_per_model': runs_per_model, 'distinct_histories': len(digests),
        'logical_steps_total': total_steps, 'simulated_time': 'no clock exists in the system under test; logical scheduler steps only',
        'distinct_interleavings': len(ilh),
        'interleaving_measure': 'FNV-1a over (chosen task, pre-emption kind) at every scheduler decision with >=2 runnable tasks',
        'fault_kinds_fired': stats.get('faults', {}), 'probes': stats.get('probes', {}),
        'pairs_covered': pairs_cov, 'pairs_total': pairs_total, 'compile_s': round(compile_s, 1),
        'seeds': f'VERIF_SEED={seed}; model seeds = SHA256(seed/modelA/<stream>/<i>), i<{n_models}',
        'run_digest': rd.hexdigest(),
    }
    if extra:
        rep.coverage.update(extra)
    if pre_finish:
        pre_finish(rep)
    return rep.finish()


def PROFILE_FLAVOR(profile):
    from . import profiles
    return profiles.PROFILES[profile]['flavor']
