"""Access to the REAL dznpy under test: always the working tree /repo/src, never the wheel in site-packages."""
import os
import sys

REPO_SRC = os.environ.get('VERIF_REPO_SRC', '/repo/src')


def ensure_repo_dznpy():
    """Put /repo/src first on sys.path and verify that `dznpy` resolves there."""
    if sys.path[0] != REPO_SRC:
        if REPO_SRC in sys.path:
            sys.path.remove(REPO_SRC)
        sys.path.insert(0, REPO_SRC)
    import dznpy  # noqa
    origin = os.path.realpath(dznpy.__file__)
    if not origin.startswith(os.path.realpath(REPO_SRC) + os.sep):
        raise RuntimeError(f'HARNESS-ERROR: dznpy resolved to {origin}, expected below {REPO_SRC}')
    return dznpy


def parse_json_ast(json_bytes: bytes):
    ensure_repo_dznpy()
    import contextlib
    from dznpy.json_ast import DznJsonAst
    with contextlib.redirect_stdout(sys.stderr):   # the library prints 'skipping item ...' for declarations it ignores
        return DznJsonAst(json_bytes).process()


def build(cfgspec, fc, rebuild=False):
    """Run the real builder; returns [(filename, contents, hash)].
    rebuild: build a second time from the SAME Configuration object (as a user generating twice would) and return
    that result - what World A compiles is then the product of a two-build history, so a build that damages its own
    configuration or model shows up in the compiled program too."""
    ensure_repo_dznpy()
    from dznpy.adv_shell import Builder
    from . import cfggen
    cfg = cfggen.build_configuration(cfgspec, fc)
    result = Builder().build(cfg)
    if rebuild:
        result = Builder().build(cfg)
    return [(f.filename, f.contents, f.hash) for f in result.files]
