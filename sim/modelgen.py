"""Random Dezyne model specs, their JSON AST (input of the real dznpy parser) and reference spellings.

The *spec* is plain Python data and is the ground truth the oracles and the C++ mock header are
derived from; dznpy only ever sees the JSON AST printed from it.
"""
from .rng import Rng

CPP_KEYWORDS = set('''alignas alignof and and_eq asm auto bitand bitor bool break case catch char char8_t
char16_t char32_t class compl concept const consteval constexpr constinit const_cast continue co_await
co_return co_yield decltype default delete do double dynamic_cast else enum explicit export extern false
float for friend goto if inline int long mutable namespace new noexcept not not_eq nullptr operator or
or_eq private protected public register reinterpret_cast requires return short signed sizeof static
static_assert static_cast struct switch template this thread_local throw true try typedef typeid
typename union unsigned using virtual void volatile wchar_t while xor xor_eq final override import
module'''.split())

# names used by the generated code itself, by the mock runtime or by Dezyne keywords
RESERVED = set('''identifier port r lockAndData locator prototypeLocator multiclientLog encapsuleeInstanceName
parentComponentMeta in out inout meta dzn_meta dzn_runtime dzn_locator check_bindings std dzn Dzn sim
main result log provides requires injected interface component system behavior behaviour on reply
extern subint optional inevitable illegal otherwise blocking external type value size string vector map
function connect errno stdin stdout stderr signal time exit abort assert NULL EOF linux unix i386
TokInt TokLong TokStr TokTracked Tracked Model Shell Comp SF self it first second'''.split())

SYL = ['ka', 'to', 'mi', 'ra', 'zen', 'lo', 'pi', 'nu', 'ver', 'bo', 'qua', 'tis', 'mor', 'el', 'dax', 'fi', 'gon',
       'hu', 'jet', 'wem', 'x', 'y9', 'a1', 'svc', 'ctl']

EXTERN_CPP = [
    ('int', 'int'), ('long', 'long'), ('std::string', 'str'), ('::sim::Tracked', 'tracked'),
    ('TokInt', 'int'), ('TokStr', 'str'), ('TokTracked', 'tracked'), ('TokLong', 'long'),
    ('::TokInt', 'int'), ('::std::string', 'str'), ('::sim::BoxA', 'boxa'), ('::sim::BoxB', 'boxb'),
]


class NameGen:
    """Produce identifiers of varied shape that are unique within a 'space' (case-insensitively on the first
    letter, so that capitalising a port name cannot make two accessor names collide)."""

    def __init__(self, rng: Rng):
        self.rng = rng
        self.used = {}

    def ident(self, space: str, shape: str = 'any') -> str:
        used = self.used.setdefault(space, set())
        for _ in range(1000):
            n = self.rng.between(1, 3)
            base = ''.join(self.rng.choice(SYL) for _ in range(n))
            if base[0].isdigit():
                base = 'n' + base
            shp = shape if shape != 'any' else self.rng.weighted(
                [(4, 'lower'), (4, 'upper'), (1, 'under'), (1, 'camel'), (1, 'snake'), (1, 'caps')])
            if shp == 'lower':
                name = base
            elif shp == 'upper':
                name = base[0].upper() + base[1:]
            elif shp == 'under':
                name = '_' + base
            elif shp == 'camel':
                name = base + self.rng.choice(SYL).capitalize()
            elif shp == 'snake':
                name = base + '_' + self.rng.choice(SYL)
            else:
                name = base.upper()
            if '__' in name:
                continue
            key = name[0].upper() + name[1:]
            if name in CPP_KEYWORDS or name in RESERVED or key in used or key.lower() in CPP_KEYWORDS:
                continue
            if name.lower() in {u.lower() for u in used}:
                continue
            used.add(key)
            return name
        raise RuntimeError('identifier space exhausted')

    def first_letter_variant(self, space: str, base: str):
        """`base` with the case of its first letter flipped (only for worlds that never compile the output: the
        accessor names of such a pair collide)."""
        used = self.used.setdefault(space, set())
        if not base[0].isalpha():
            return None
        name = base[0].swapcase() + base[1:]
        if name in CPP_KEYWORDS or name in RESERVED or ('!' + name) in used:
            return None
        used.add('!' + name)
        return name

    def variant(self, space: str, base: str):
        """A name that differs from `base` only in the case of letters after the first one (ties under casefold /
        lower-case sort keys), or None when no such variant is free."""
        used = self.used.setdefault(space, set())
        idxs = [i for i in range(1, len(base)) if base[i].isalpha()]
        for _ in range(20):
            if not idxs:
                return None
            chars = list(base)
            for i in self.rng.sample(idxs, self.rng.between(1, min(3, len(idxs)))):
                chars[i] = chars[i].swapcase()
            name = ''.join(chars)
            key = name[0].upper() + name[1:]
            if name != base and key not in used and name not in CPP_KEYWORDS and name not in RESERVED:
                used.add(key)
                return name
        return None

    def reserve(self, space: str, name: str):
        self.used.setdefault(space, set()).add(name[0].upper() + name[1:])


class Unresolvable(Exception):
    """A declaration cannot be spelled unambiguously from a referring scope (shadowed global name)."""


GENERATOR_LOCALS = ['r', 'lockAndData', 'identifier', 'log', 'locator', 'shellName', 'prototypeLocator', 'parent', 'result', 'port', 'l']


def with_generator_local_names(rng: Rng, spec: dict, percent=35) -> dict:
    """World B/C only (nothing is compiled there): some formals are called like locals, parameters or members that the
    generator itself emits.  Whether the C++ produced for such a model compiles is C06's business (not claimed); builds
    of such models must still be pure, repeatable and independent of one another."""
    if not rng.chance(percent):
        return spec
    for itf in spec['interfaces']:
        for ev in itf['events']:
            if not ev['formals'] or not rng.chance(60):
                continue
            used = {f['name'] for f in ev['formals']}
            cand = [n for n in GENERATOR_LOCALS if n not in used]
            f = rng.choice(ev['formals'])
            f['name'] = rng.choice(cand[:2]) if rng.chance(50) else rng.choice(cand)
    return spec


def gen_spec(rng: Rng, want_mc: bool = None, min_ports: int = 1, profile: str = 'default', mc_triggers: bool = False) -> dict:
    """Generate a model spec.  want_mc: force (True) / forbid (False) a multi-client capable provides port.
    Only well-formed, unambiguous models are produced: a draft in which some reference has no unambiguous
    spelling is discarded and redrawn."""
    for attempt in range(50):
        try:
            return _gen_spec(rng.fork('attempt', attempt), want_mc, min_ports, profile, mc_triggers)
        except Unresolvable:
            continue
    raise RuntimeError('could not generate a resolvable model')


def _gen_spec(rng: Rng, want_mc, min_ports, profile, mc_triggers=False) -> dict:
    names = NameGen(rng)
    if want_mc is None:
        want_mc = rng.chance(45)
    big = profile == 'default' and rng.chance(10)   # occasionally a large model: many ports, events and formals

    # ---- namespaces
    want_hom = rng.chance(30)
    ns_ids = [names.ident('ns', rng.choice(['upper', 'upper', 'lower', 'any'])) for _ in range(rng.between(2 if want_hom else 1, 4))]
    for n in ns_ids:
        names.reserve('decl', n)
    paths = [[]]
    for _ in range(rng.between(0, 4)):
        base = rng.choice(paths)
        if len(base) < 3:
            p = base + [rng.choice(ns_ids)]
            if p not in paths:
                paths.append(p)
    if want_hom:
        for p in ([ns_ids[0]], [ns_ids[1]]):
            if p not in paths:
                paths.append(p)
    comp_ns = rng.choice(paths)

    def pick_ns():
        return list(rng.choice(paths))

    decls = []   # in 'declaration' order (JSON order is shuffled separately)
    fqns = set()

    def fresh_name(ns, shape='any'):
        for _ in range(100):
            n = names.ident('decl', shape)
            if tuple(ns + [n]) not in fqns:
                fqns.add(tuple(ns + [n]))
                return n
        raise RuntimeError('no fresh name')

    # ---- externs
    externs = []
    for _ in range(rng.between(1, 5)):
        ns = pick_ns()
        cpp, codec = rng.choice(EXTERN_CPP)
        externs.append({'kind': 'extern', 'ns': ns, 'name': fresh_name(ns), 'cpp': cpp, 'codec': codec})
    # twins: the same simple name declared again in another namespace with a different data type.  BoxA/BoxB convert
    # into each other implicitly (spoiling the token), so a name-keyed mix-up still compiles but alters the argument;
    # the other pairs do not convert, so a mix-up does not compile.
    for _ in range(rng.weighted([(4, 0), (3, 1), (2, 2), (1, 3)])):
        src = rng.choice(externs)
        ns = pick_ns()
        if tuple(ns + [src['name']]) in fqns:
            continue
        if not src.get('twin'):
            src['cpp'], src['codec'] = rng.weighted([(6, ('::sim::BoxA', 'boxa')), (2, ('int', 'int')), (1, ('::sim::Tracked', 'tracked'))])
        pair = {'boxa': ('::sim::BoxB', 'boxb'), 'boxb': ('::sim::BoxA', 'boxa'), 'int': ('std::string', 'str'),
                'tracked': ('::sim::BoxA', 'boxa'), 'str': ('int', 'int')}[src['codec']]
        src['twin'] = True
        fqns.add(tuple(ns + [src['name']]))
        externs.append({'kind': 'extern', 'ns': ns, 'name': src['name'], 'cpp': pair[0], 'codec': pair[1], 'twin': True})
    # data types spelled as references to const (`extern Msg $const std::string&$`): usable for in-parameters only, and
    # the caller's argument is then a reference into the caller's frame
    if rng.chance(30):
        for _ in range(rng.between(1, 2)):
            ns = pick_ns()
            cpp, codec = rng.choice([('const std::string&', 'str'), ('const ::sim::Tracked&', 'tracked'), ('const TokStr &', 'str'),
                                     ('::sim::Tracked const&', 'tracked'), ('const long&', 'long')])
            externs.append({'kind': 'extern', 'ns': ns, 'name': fresh_name(ns), 'cpp': cpp, 'codec': codec, 'in_only': True})
    # data types spelled as raw pointers: copied like any value, in every direction
    if rng.chance(25):
        for _ in range(rng.between(1, 2)):
            ns = pick_ns()
            cpp, codec = rng.choice([('const ::sim::Tracked*', 'ptr_tracked'), ('const long*', 'ptr_long'), ('long *', 'ptr_long'),
                                     ('::sim::Tracked const *', 'ptr_tracked')])
            externs.append({'kind': 'extern', 'ns': ns, 'name': fresh_name(ns), 'cpp': cpp, 'codec': codec})
    # ---- namespace level enums / subints
    enums = []
    for _ in range(rng.between(1 if want_mc else 0, 3)):
        ns = pick_ns()
        enums.append({'kind': 'enum', 'ns': ns, 'name': fresh_name(ns, 'upper'),
                      'fields': _fields(rng, names, 2, 4)})
    subints = []
    for _ in range(rng.between(0, 1)):
        ns = pick_ns()
        lo = rng.between(0, 3)
        subints.append({'kind': 'subint', 'ns': ns, 'name': fresh_name(ns, 'upper'), 'lo': lo, 'hi': lo + rng.between(1, 5)})

    # ---- interfaces
    interfaces = []
    n_itf = rng.between(2 if want_hom else 1, 4)
    for k_itf in range(n_itf):
        ns = pick_ns()
        if want_hom and k_itf < 2:
            ns = [ns_ids[k_itf]]   # two interfaces in unrelated sibling namespaces
        itf = {'kind': 'interface', 'ns': ns, 'name': fresh_name(ns, rng.choice(['upper', 'any'])),
               'enums': [], 'subints': [], 'events': []}
        itf_fqn = ns + [itf['name']]
        names.reserve('nested:' + '.'.join(itf_fqn), itf['name'])
        for _ in range(rng.between(0, 2)):
            n = names.ident('nested:' + '.'.join(itf_fqn), 'upper')
            fqns.add(tuple(itf_fqn + [n]))
            itf['enums'].append({'kind': 'enum', 'ns': itf_fqn, 'name': n, 'fields': _fields(rng, names, 2, 4)})
        if rng.chance(30):
            n = names.ident('nested:' + '.'.join(itf_fqn), 'upper')
            fqns.add(tuple(itf_fqn + [n]))
            lo = rng.between(0, 2)
            itf['subints'].append({'kind': 'subint', 'ns': itf_fqn, 'name': n, 'lo': lo, 'hi': lo + rng.between(1, 4)})
        evnames = NameGen(rng)
        n_ev = rng.weighted([(1, 0), (3, 1), (4, 2), (4, 3), (3, 4), (2, 5)]) if not big else rng.between(4, 9)
        for _ in range(n_ev):
            itf['events'].append(_event(rng, evnames, itf, externs, enums, subints, many_formals=big))
        interfaces.append(itf)

    # ---- homonyms: one simple type name declared in two unrelated namespaces with different (mutually convertible)
    # data types, each used by an interface of its own namespace - written with the same short spelling
    hom_pair = None
    if want_hom:
        pairs = [(a, b) for a in interfaces for b in interfaces
                 if a is not b and a['ns'] and b['ns'] and a['ns'][:len(b['ns'])] != b['ns'] and b['ns'][:len(a['ns'])] != a['ns']]
        if pairs:
            ia, ib = rng.choice(pairs)
            tname = names.ident('decl', 'upper')
            if tuple(ia['ns'] + [tname]) not in fqns and tuple(ib['ns'] + [tname]) not in fqns and (tname,) not in fqns:
                types = rng.shuffle([('::sim::BoxA', 'boxa'), ('::sim::BoxB', 'boxb')])
                hom_pair = (ia, ib)
                for itf, (cpp, codec) in ((ia, types[0]), (ib, types[1])):
                    ext = {'kind': 'extern', 'ns': list(itf['ns']), 'name': tname, 'cpp': cpp, 'codec': codec, 'twin': True}
                    externs.append(ext)
                    fqns.add(tuple(itf['ns'] + [tname]))
                    if not itf['events']:
                        itf['events'].append(_event(rng, NameGen(rng), itf, externs, enums, subints))
                    for ev in rng.sample(itf['events'], min(len(itf['events']), rng.between(1, 2))):
                        fdir = 'in' if ev['dir'] == 'out' else rng.weighted([(5, 'in'), (2, 'out'), (2, 'inout')])
                        used = {f['name'] for f in ev['formals']}
                        fname = next(n for n in ('hom', 'hom2', 'hom3', 'hom4') if n not in used)
                        ev['formals'].insert(rng.below(len(ev['formals']) + 1),
                                             {'name': fname, 'dir': fdir, 'ext': itf['ns'] + [tname], 'short': True})

    # ---- multi-client capable interface
    mc = None
    if want_mc:
        itf = rng.choice(interfaces)
        if rng.chance(50) or not any(e['dir'] == 'out' for e in itf['events']):
            # make sure there is at least one out event so that arbitration is observable
            evn = NameGen(rng)
            for e in itf['events']:
                evn.reserve('ev', e['name'])
            for _ in range(rng.between(1, 2)):
                itf['events'].insert(rng.below(len(itf['events']) + 1),
                                     _event(rng, evn, itf, externs, enums, subints, force_dir='out'))
        evn = NameGen(rng)
        for e in itf['events']:
            evn.reserve('ev', e['name'])
        cands = [e for e in (enums + itf['enums']) if len(e['fields']) >= 2]
        enum = rng.choice(cands)
        literal = rng.chance(30)
        claim_name = 'Claim' if literal else evn.ident('ev')
        release_name = 'Release' if literal else evn.ident('ev')
        if literal:
            if any(e['name'] in ('Claim', 'Release') for e in itf['events']):
                claim_name, release_name = evn.ident('ev'), evn.ident('ev')
        claim = _event(rng, evn, itf, externs, enums, subints, force_dir='in', force_name=claim_name,
                       force_ret={'kind': 'enum', 'fqn': enum['ns'] + [enum['name']]})
        release = _event(rng, evn, itf, externs, enums, subints, force_dir='in', force_name=release_name,
                         force_ret={'kind': 'void'})
        itf['events'].insert(rng.below(len(itf['events']) + 1), claim)
        itf['events'].insert(rng.below(len(itf['events']) + 1), release)
        if rng.chance(40):
            # look-alikes: events whose names merely START with the configured names, declared before them, with
            # compatible replies (an enum-replying one for claim, a void one for release)
            for base_name, ret in ((claim_name, {'kind': 'enum', 'fqn': enum['ns'] + [enum['name']]}), (release_name, {'kind': 'void'})):
                alike = base_name + rng.choice(['Allowed', '2', '_x', 'Now'])
                if alike not in {e['name'] for e in itf['events']} and alike not in CPP_KEYWORDS and alike not in RESERVED:
                    evn.reserve('ev', alike)
                    itf['events'].insert(0, _event(rng, evn, itf, externs, enums, subints, force_dir='in', force_name=alike, force_ret=dict(ret)))
        if mc_triggers and not any(e['dir'] == 'in' and e['name'] not in (claim_name, release_name) for e in itf['events']):
            itf['events'].insert(rng.below(len(itf['events']) + 1),
                                 _event(rng, evn, itf, externs, enums, subints, force_dir='in'))
        # decoy events literally called Claim / Release that are NOT the configured ones
        if not literal and rng.chance(40):
            have = {e['name'] for e in itf['events']}
            if 'Release' not in have and 'Claim' not in have:
                evn.reserve('ev', 'Release')
                evn.reserve('ev', 'Claim')
                if rng.chance(70):
                    itf['events'].insert(rng.below(len(itf['events']) + 1),
                                         _event(rng, evn, itf, externs, enums, subints, force_dir='in', force_name='Release'))
                if rng.chance(50):
                    itf['events'].insert(rng.below(len(itf['events']) + 1),
                                         _event(rng, evn, itf, externs, enums, subints, force_dir='in', force_name='Claim'))
        mc = {'itf': itf['ns'] + [itf['name']], 'claim': claim['name'], 'release': release['name'],
              'enum': enum['ns'] + [enum['name']], 'grant': rng.choice(enum['fields'])}

    # ---- encapsulee
    pnames = NameGen(rng)
    comp_name = fresh_name(list(comp_ns), rng.choice(['upper', 'upper', 'any']))
    for r in ('dzn_meta', 'dzn_runtime', 'dzn_locator', 'check_bindings', 'inner', comp_name):
        pnames.reserve('port', r)
    ports = []
    n_prov = rng.weighted([(1, 0), (5, 1), (4, 2), (2, 3)])
    n_req = rng.weighted([(2, 0), (4, 1), (4, 2), (2, 3)])
    if profile == 'many_ports':
        n_prov = rng.between(2, 5)
        n_req = rng.between(2, 6)
    if big:
        n_prov = rng.between(3, 5)
        n_req = rng.between(3, 6)
    n_inj = rng.weighted([(6, 0), (3, 1), (1, 2)])
    if want_mc and n_prov == 0:
        n_prov = 1
    if n_prov + n_req < min_ports:
        n_prov = max(n_prov, 1)
    for _ in range(n_prov):
        itf = rng.choice(interfaces)
        ports.append({'name': pnames.ident('port'), 'dir': 'provides', 'itf': itf['ns'] + [itf['name']], 'injected': False})
    if mc:
        prov = [p for p in ports if p['dir'] == 'provides']
        tgt = rng.choice(prov)
        tgt['itf'] = list(mc['itf'])
        mc['port'] = tgt['name']
    for _ in range(n_req):
        itf = rng.choice(interfaces)
        ports.append({'name': pnames.ident('port'), 'dir': 'requires', 'itf': itf['ns'] + [itf['name']], 'injected': False})
    inj_itfs = rng.shuffle(interfaces)[:n_inj]   # one instance per type lives in a locator: distinct interfaces
    for itf in inj_itfs:
        ports.append({'name': pnames.ident('port'), 'dir': 'requires', 'itf': itf['ns'] + [itf['name']], 'injected': True})
    if hom_pair:
        # both interfaces that use the homonym types are ports of the encapsulee
        free = [p for p in ports if not p['injected'] and not (mc and p['name'] == mc.get('port'))]
        for p, itf in zip(rng.shuffle(free)[:2], hom_pair):
            p['itf'] = itf['ns'] + [itf['name']]
    near_dup = profile == 'many_ports' or rng.chance(25)
    if near_dup:
        # near-duplicate names: equal under casefold(), so that any sort key or comparison coarser than the name itself
        # ties (the accessor names stay distinct: only letters after the first differ)
        for p in ports:
            if rng.chance(35):
                other = rng.choice(ports)
                if other is not p and other['dir'] == p['dir'] and not (mc and p['name'] == mc.get('port')):
                    v = pnames.variant('port', other['name'])
                    if v:
                        p['name'] = v
        if profile == 'many_ports' and rng.chance(20):
            cands = [p for p in ports if not (mc and p['name'] == mc.get('port'))]
            if len(cands) >= 2:
                a, b = rng.sample(cands, 2)
                if a['dir'] == b['dir'] and not a['injected'] and not b['injected']:
                    v = pnames.first_letter_variant('port', a['name'])
                    if v and v not in [p['name'] for p in ports]:
                        b['name'] = v
    ports = rng.shuffle(ports)
    comp = {'kind': rng.weighted([(3, 'component'), (2, 'system')]), 'ns': list(comp_ns),
            'name': comp_name, 'ports': ports}

    # ---- decoys: same simple names in unrelated namespaces, other components, foreigns
    decoys = []
    other_paths = [p for p in paths if p != comp_ns]
    for _ in range(rng.between(0, 3)):
        src = rng.choice(interfaces + externs + enums)
        ns = list(rng.choice(paths))
        if tuple(ns + [src['name']]) in fqns:
            continue
        d = dict(src)
        d['ns'] = ns
        d['decoy'] = True
        if d['kind'] == 'interface':
            d = {'kind': 'interface', 'ns': ns, 'name': src['name'], 'enums': [], 'subints': [], 'events': [], 'decoy': True}
            evn = NameGen(rng)
            for _ in range(rng.between(0, 2)):
                d['events'].append(_event(rng, evn, d, externs, enums, subints))
        fqns.add(tuple(ns + [src['name']]))
        decoys.append(d)
    extra_comps = []
    for _ in range(rng.between(0, 2)):
        ns = pick_ns()
        kind = rng.choice(['component', 'foreign', 'system'])
        pn = NameGen(rng)
        eports = []
        for _ in range(rng.between(0, 2)):
            itf = rng.choice(interfaces)
            eports.append({'name': pn.ident('port'), 'dir': rng.choice(['provides', 'requires']),
                           'itf': itf['ns'] + [itf['name']], 'injected': False})
        extra_comps.append({'kind': kind, 'ns': ns, 'name': fresh_name(ns, 'upper'), 'ports': eports, 'decoy': True})

    spec = {
        'basename': names.ident('file', rng.choice(['upper', 'any'])),
        'externs': externs, 'enums': enums, 'subints': subints, 'interfaces': interfaces,
        'component': comp, 'decoys': decoys, 'extra_comps': extra_comps, 'mc': mc, 'homonyms': bool(hom_pair),
        'fqns': sorted(list(f) for f in fqns),
    }
    _resolve_refs(spec, rng)
    return spec


def _fields(rng, names, lo, hi):
    fn = NameGen(rng)
    return [fn.ident('f', rng.choice(['upper', 'any'])) for _ in range(rng.between(lo, hi))]


def _event(rng, evnames, itf, externs, enums, subints, force_dir=None, force_name=None, force_ret=None, many_formals=False):
    direction = force_dir or rng.weighted([(3, 'in'), (2, 'out')])
    name = force_name or evnames.ident('ev')
    if force_name:
        evnames.reserve('ev', force_name)
    fn = NameGen(rng)
    formals = []
    nform = rng.weighted([(3, 0), (4, 1), (3, 2), (2, 3), (1, 4)]) if not many_formals else rng.between(2, 7)
    twins = [e for e in externs if e.get('twin')]
    for _ in range(nform):
        ext = rng.choice(twins) if (twins and rng.chance(50)) else rng.choice(externs)
        fdir = 'in' if direction == 'out' else rng.weighted([(5, 'in'), (3, 'out'), (2, 'inout')])
        if ext.get('in_only'):
            fdir = 'in'
        fname = fn.ident('formal', rng.choice(['lower', 'any']))
        if rng.chance(35):
            # everyday names that recur across the events of an interface (`in void Read(out T value); out void Changed(T value);`)
            # ... and names of parameters of the generated constructor, which the forwarding lambdas live in (legal: a lambda
            # parameter may shadow them)
            common = [n for n in ('value', 'id', 'data', 'count', 'msg', 'locator', 'prototypeLocator', 'encapsuleeInstanceName', 'multiclientLog')
                      if n not in {f['name'] for f in formals}]
            if common:
                fname = rng.choice(common)
        formals.append({'name': fname, 'dir': fdir,
                        'ext': ext['ns'] + [ext['name']]})
    if force_ret:
        ret = dict(force_ret)
    elif direction == 'out':
        ret = {'kind': 'void'}
    else:
        kind = rng.weighted([(5, 'void'), (2, 'bool'), (3, 'enum'), (1, 'subint')])
        ret = {'kind': 'void'}
        if kind == 'bool':
            ret = {'kind': 'bool'}
        elif kind == 'enum':
            cands = enums + itf['enums']
            if cands:
                e = rng.choice(cands)
                ret = {'kind': 'enum', 'fqn': e['ns'] + [e['name']]}
        elif kind == 'subint':
            cands = subints + itf['subints']
            if cands:
                s = rng.choice(cands)
                ret = {'kind': 'subint', 'fqn': s['ns'] + [s['name']]}
    return {'name': name, 'dir': direction, 'ret': ret, 'formals': formals}


def all_fqns(spec):
    return {tuple(f) for f in spec['fqns']}


def spellings(target, scope, fqns):
    """All spellings (suffixes of target) that dznpy's lookup - and Dezyne's - resolve to exactly `target`
    and to nothing else when looked up from `scope` outward."""
    target = list(target)
    result = []
    for k in range(1, len(target) + 1):
        ref = target[-k:]
        hits = set()
        for i in range(len(scope), -1, -1):
            cand = tuple(scope[:i] + ref)
            if cand in fqns:
                hits.add(cand)
        if hits == {tuple(target)}:
            result.append(ref)
    return result


def _resolve_refs(spec, rng):
    fq = all_fqns(spec)

    def ref(target, scope, prefer_short=False):
        opts = spellings(target, scope, fq)
        if not opts:
            raise Unresolvable(f'no unambiguous spelling for {target} from {scope}')
        if prefer_short or rng.chance(40):
            return list(min(opts, key=len))
        return list(rng.choice(opts))

    for itf in spec['interfaces'] + [d for d in spec['decoys'] if d['kind'] == 'interface']:
        scope = itf['ns'] + [itf['name']]
        for ev in itf['events']:
            if ev['ret']['kind'] in ('enum', 'subint'):
                ev['ret']['ref'] = ref(ev['ret']['fqn'], scope)
            for f in ev['formals']:
                f['ref'] = ref(f['ext'], scope, prefer_short=bool(f.get('short')))
    for comp in [spec['component']] + spec['extra_comps']:
        for p in comp['ports']:
            p['ref'] = ref(p['itf'], comp['ns'])


# ------------------------------------------------------------------------------------------ lookups
def find_itf(spec, fqn):
    for itf in spec['interfaces']:
        if itf['ns'] + [itf['name']] == list(fqn):
            return itf
    raise KeyError(fqn)


def find_extern(spec, fqn):
    for e in spec['externs']:
        if e['ns'] + [e['name']] == list(fqn):
            return e
    raise KeyError(fqn)


def find_enum(spec, fqn):
    for e in spec['enums']:
        if e['ns'] + [e['name']] == list(fqn):
            return e
    for itf in spec['interfaces']:
        for e in itf['enums']:
            if e['ns'] + [e['name']] == list(fqn):
                return e
    raise KeyError(fqn)


def find_subint(spec, fqn):
    for e in spec['subints']:
        if e['ns'] + [e['name']] == list(fqn):
            return e
    for itf in spec['interfaces']:
        for e in itf['subints']:
            if e['ns'] + [e['name']] == list(fqn):
                return e
    raise KeyError(fqn)


# ------------------------------------------------------------------------------------------ JSON AST
def _sn(ids):
    return {'<class>': 'scope_name', 'ids': list(ids)}


def _loc(rng):
    return {'<class>': 'location', 'file-name': 'x.dzn', 'line': rng.between(1, 900), 'column': rng.between(1, 80),
            'end-line': 1, 'end-column': 1, 'offset': 0, 'length': 1}


def _j_event(ev, rng):
    ret = ev['ret']
    if ret['kind'] == 'void':
        tn = ['void']
    elif ret['kind'] == 'bool':
        tn = ['bool']
    else:
        tn = ret['ref']
    formals = [{'<class>': 'formal', 'expression': 'undefined', 'name': f['name'], 'type_name': _sn(f['ref']),
                'direction': f['dir'], 'location': _loc(rng)} for f in ev['formals']]
    return {'<class>': 'event', 'name': ev['name'], 'direction': ev['dir'], 'location': _loc(rng),
            'signature': {'<class>': 'signature', 'type_name': _sn(tn),
                          'formals': {'<class>': 'formals', 'elements': formals}}}


def _j_enum(e):
    return {'<class>': 'enum', 'name': _sn([e['name']]), 'fields': {'<class>': 'fields', 'elements': list(e['fields'])}}


def _j_subint(s):
    return {'<class>': 'subint', 'name': _sn([s['name']]), 'range': {'<class>': 'range', 'from': s['lo'], 'to': s['hi']}}


def _j_ports(ports, rng):
    els = []
    for p in ports:
        d = {'<class>': 'port', 'name': p['name'], 'type_name': _sn(p['ref']), 'direction': p['dir'],
             'formals': {'<class>': 'formals', 'elements': []}, 'location': _loc(rng)}
        if p.get('injected'):
            d['injected?'] = 'injected'
        els.append(d)
    return {'<class>': 'ports', 'elements': els}


def _j_decl(d, rng):
    k = d['kind']
    if k == 'extern':
        return {'<class>': 'extern', 'name': _sn([d['name']]), 'value': {'<class>': 'data', 'value': d['cpp']}}
    if k == 'enum':
        return _j_enum(d)
    if k == 'subint':
        return _j_subint(d)
    if k == 'interface':
        types = [_j_enum(e) for e in d['enums']] + [_j_subint(s) for s in d['subints']]
        if rng.chance(25):
            # a data type declared locally in the interface (Dezyne allows it; nothing in the model refers to it)
            types.append({'<class>': 'extern', 'name': _sn(['LocalData' + str(rng.below(100))]), 'value': {'<class>': 'data', 'value': 'int'}})
        types = rng.shuffle(types)
        return {'<class>': 'interface', 'name': _sn([d['name']]), 'location': _loc(rng),
                'types': {'<class>': 'types', 'elements': types},
                'events': {'<class>': 'events', 'elements': [_j_event(e, rng) for e in d['events']]},
                'behavior': {'<class>': 'behavior', 'name': 'behavior', 'statement': {'<class>': 'compound', 'elements': []}}}
    if k in ('component', 'foreign'):
        r = {'<class>': k, 'name': _sn([d['name']]), 'ports': _j_ports(d['ports'], rng), 'location': _loc(rng)}
        if k == 'component':
            r['behavior'] = {'<class>': 'behavior', 'name': 'behavior'}
        return r
    if k == 'system':
        insts = [{'<class>': 'instance', 'name': 'inner', 'type_name': _sn(['Inner' + d['name']])}]
        binds = [{'<class>': 'binding',
                  'left': {'<class>': 'end-point', 'port_name': p['name']},
                  'right': {'<class>': 'end-point', 'port_name': p['name'], 'instance_name': 'inner'}}
                 for p in d['ports']]
        return {'<class>': 'system', 'name': _sn([d['name']]), 'ports': _j_ports(d['ports'], rng),
                'instances': {'<class>': 'instances', 'elements': insts},
                'bindings': {'<class>': 'bindings', 'elements': binds}, 'location': _loc(rng)}
    raise ValueError(k)


def to_json_ast(spec, rng: Rng) -> dict:
    """Print the spec as a Dezyne JSON AST with shuffled declaration order, re-opened and multi-identifier
    namespaces and the ignorable extra keys the real `dzn parse` emits."""
    decls = spec['externs'] + spec['enums'] + spec['subints'] + spec['interfaces'] + [spec['component']] + \
        spec['decoys'] + spec['extra_comps']
    decls = rng.shuffle(decls)
    root_elements = []
    # `dzn parse` output opens with a file-name marker; the grammar the parser accepts does not require that:
    # markers and imports may come anywhere, several times, or not at all
    lead = rng.weighted([(6, 'marker-first'), (2, 'import-first'), (1, 'no-marker')])
    if lead == 'import-first':
        root_elements.append({'<class>': 'import', 'name': 'Early' + str(rng.below(99)) + '.dzn'})
    if lead != 'no-marker':
        root_elements.append({'<class>': 'file-name', 'name': './' + spec['basename'] + '.dzn'})
    for _ in range(rng.between(0, 2)):
        root_elements.append({'<class>': 'import', 'name': 'Imp' + str(rng.below(99)) + '.dzn'})

    def place(container, segs, payload, allow_merge):
        """Insert payload below nested namespace elements for the id path `segs`."""
        if not segs:
            container.append(payload)
            return
        # choose how many ids the next namespace element carries (multi-identifier namespace names)
        take = 1
        while take < len(segs) and rng.chance(25):
            take += 1
        head = segs[:take]
        if allow_merge:
            for el in reversed(container):
                if el.get('<class>') == 'namespace' and el['name']['ids'] == head and rng.chance(60):
                    place(el['elements'], segs[take:], payload, allow_merge)
                    return
        ns_el = {'<class>': 'namespace', 'name': _sn(head), 'elements': [], 'location': _loc(rng)}
        container.append(ns_el)
        place(ns_el['elements'], segs[take:], payload, allow_merge)

    for d in decls:
        place(root_elements, list(d['ns']), _j_decl(d, rng), True)
        if rng.chance(10):
            root_elements.append({'<class>': 'bogus-element', 'name': 'ignored'})
        if rng.chance(8):
            root_elements.append({'<class>': 'file-name', 'name': './inc/Other' + str(rng.below(9)) + '.dzn'})
            root_elements.append({'<class>': 'import', 'name': 'Late' + str(rng.below(99)) + '.dzn'})
    root = {'<class>': 'root', 'elements': root_elements, 'working-directory': '/work/' + spec['basename']}
    if rng.chance(60):
        root['comment'] = {'<class>': 'comment', 'string': '// generated model ' + spec['basename'] + '\n'}
    return root
