/* Deterministic simulation kernel: baton-scheduled real threads.
 *
 * Exactly one task (thread) runs at any time.  Hand-over is a raw futex on a per-task word, which
 * ThreadSanitizer neither intercepts nor models: the only happens-before edges TSan sees are the
 * ones the program under test creates itself (mutexes, atomics, thread create/join).
 *
 * This file is compiled WITHOUT any sanitizer and uses no libc mem/str functions.
 */
#ifndef SIM_KERNEL_H
#define SIM_KERNEL_H

#ifdef __cplusplus
extern "C" {
#endif

/* yield kinds (also the alphabet of the interleaving measure) */
enum {
    YK_OP = 0,      /* between two workload ops of a task */
    YK_POST,        /* a closure is being posted to a pump */
    YK_EXEC_PRE,    /* pump worker is about to run a closure */
    YK_EXEC_POST,   /* pump worker finished a closure */
    YK_SHELL_WAIT,  /* dzn::shell caller parks waiting for completion */
    YK_SHELL_RET,   /* dzn::shell caller resumes */
    YK_LOCK,        /* before pthread_mutex_lock */
    YK_UNLOCK,      /* after pthread_mutex_unlock */
    YK_LOG,         /* inside an ILog callback */
    YK_HANDLER,     /* inside a harness-bound handler */
    YK_SPAWN,
    YK_EXIT,
    YK_BLOCK,       /* blocking wait on a kernel object */
    YK_USER,
    YK__COUNT
};

/* scheduling policies */
enum { POL_UNIFORM = 0, POL_STICKY, POL_PCT, POL_RR, POL_DEFAULT, POL__COUNT };

typedef void (*sim_task_fn)(void *);

typedef struct {
    unsigned long long seed;
    int policy;
    int p1, p2;              /* policy parameters */
    int stall_from, stall_len; /* steps during which 'stallable' tasks are not eligible (if anyone else is) */
    long step_budget;
    const int *explicit_sched; /* chosen task per decision; -1 = default policy; may be NULL */
    int n_explicit;
    int out_fd;              /* where the history is written at sim_finish() */
    int trace_decisions;     /* emit the full decision list */
} sim_config;

void sim_start(const sim_config *cfg);               /* calling thread becomes task 0 ("main") */
int  sim_spawn(const char *name, sim_task_fn fn, void *arg, int daemon, int stallable);
void sim_yield(int kind);
int  sim_self(void);
const char *sim_task_name(int id);
int  sim_active(void);                               /* inside sim and calling thread is a task */

int  sim_flag_new(void);
void sim_flag_set(int f);
int  sim_flag_isset(int f);
void sim_flag_clear(int f);
void sim_flag_wait(int f, int kind);

int  sim_sem_new(int initial);
void sim_sem_post(int s);
void sim_sem_wait(int s);

void sim_join_all(void);                             /* main: wait for every non-daemon task */
void sim_join_threads(void);                         /* main: pthread_join every finished task */
void sim_join_finished(void);                        /* pthread_join every task that is already done */
void sim_task_join(int id);                          /* wait until task id is done, then pthread_join it */

long sim_ctr_add(int idx, long delta);                /* uninstrumented counters (invisible to TSan) */
long sim_ctr_get(int idx);
long long sim_token(void);                           /* run-unique, monotonically increasing */
long sim_steps(void);
void sim_rec(const char *line);                      /* append "<seq> <task> <line>\n" to the history */
void sim_note(const char *line);                     /* append "# <line>" without consuming a seq */
void sim_flush(int code);                            /* write the history (once) */
void sim_finish(int code);                           /* flush history and _exit(code) */

/* exit codes of the simulated run (child process) */
enum { SIMX_OK = 0, SIMX_DEADLOCK = 3, SIMX_BUDGET = 4, SIMX_EXCEPTION = 5, SIMX_HARNESS = 6 };

#ifdef __cplusplus
}
#endif
#endif
