// Token-carrying data types that the generated models use as extern ($...$) data types.
// HARNESS code - not part of dznpy.
#ifndef SIM_TYPES_HH
#define SIM_TYPES_HH
#include <string>
#include <utility>

extern "C" long sim_ctr_add(int idx, long delta);

namespace sim
{
enum { CTR_TRACKED_COPIES_IDX = 4 };

struct Tracked
{
  Tracked() : p(new long long(-1)) {}
  explicit Tracked(long long t) : p(new long long(t)) {}
  Tracked(const Tracked& o) : p(new long long(*o.p)) { sim_ctr_add(CTR_TRACKED_COPIES_IDX, 1); }
  Tracked(Tracked&& o) noexcept : p(o.p) { o.p = new long long(-2); }
  Tracked& operator=(const Tracked& o)
  {
    if (this != &o) *p = *o.p;
    return *this;
  }
  Tracked& operator=(Tracked&& o) noexcept
  {
    if (this != &o) std::swap(p, o.p);
    return *this;
  }
  ~Tracked()
  {
    *p = -666;
    delete p;
  }
  long long tok() const { return *p; }
  long long* p;
};
// Two distinct data types that convert into each other implicitly - and spoil the token when they do.  If generated
// code spells the wrong one of two same-named extern types, the program still compiles but the argument is altered.
struct BoxB;
struct BoxA
{
  long long v = -1;
  BoxA() = default;
  explicit BoxA(long long t) : v(t) {}
  BoxA(const BoxB&);
};
struct BoxB
{
  long long v = -1;
  BoxB() = default;
  explicit BoxB(long long t) : v(t) {}
  BoxB(const BoxA&) : v(-9) {}
};
inline BoxA::BoxA(const BoxB&) : v(-9) {}
}  // namespace sim

using TokInt = int;
using TokLong = long;
using TokStr = std::string;
using TokTracked = ::sim::Tracked;
#endif
