// Mock of the Dezyne C++ runtime: dzn::pump and dzn::shell, running on the simulation kernel.
// SIMULATED component of the verification harness.
//
// Happens-before edges offered to the program (and therefore visible to ThreadSanitizer) mirror
// the real runtime: queue mutex (poster -> worker) and completion release/acquire (worker ->
// waiter in dzn::shell).  Everything else (parking, wake-up, scheduling) is kernel-side and
// invisible to TSan.
#ifndef DZN_PUMP_HH
#define DZN_PUMP_HH
#include <atomic>
#include <deque>
#include <functional>
#include <mutex>
#include <optional>
#include <type_traits>
#include <utility>

namespace dzn
{
struct pump
{
  pump();
  ~pump();
  pump(const pump&) = delete;
  pump& operator=(const pump&) = delete;

  void operator()(const std::function<void()>& event);

  // harness-only
  int sim_id;
  void sim_stop();
  static void sim_worker(void* self);

private:
  std::mutex m_mutex;
  std::deque<std::function<void()>> m_queue;
  int m_sem;
  int m_stop_flag;
  int m_worker;
};

namespace sim_detail
{
struct completion
{
  completion();
  void complete();
  void wait(pump&);
  std::atomic<int> done{0};
  int flag;
};
} // namespace sim_detail

template <typename L, typename = typename std::enable_if<std::is_void<decltype(std::declval<L>()())>::value>::type>
void shell(dzn::pump& pump, L&& l)
{
  sim_detail::completion c;
  pump([&c, &l] {
    l();
    c.complete();
  });
  c.wait(pump);
}

template <typename L, typename = typename std::enable_if<!std::is_void<decltype(std::declval<L>()())>::value>::type>
auto shell(dzn::pump& pump, L&& l) -> decltype(l())
{
  using R = decltype(l());
  sim_detail::completion c;
  std::optional<R> r;
  pump([&c, &l, &r] {
    r.emplace(l());
    c.complete();
  });
  c.wait(pump);
  return std::move(*r);
}
} // namespace dzn
#endif
