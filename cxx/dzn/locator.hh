// Mock of the Dezyne C++ runtime: dzn::locator.  SIMULATED component of the verification harness.
#ifndef DZN_LOCATOR_HH
#define DZN_LOCATOR_HH
#include <map>
#include <stdexcept>
#include <string>
#include <typeinfo>
#include <utility>
#include <vector>

namespace dzn
{
struct locator
{
public:
  using Key = std::pair<std::string, std::string>;
  locator() {}
  locator(locator&&) = default;
  locator& operator=(locator&&) = default;
  locator clone() const { return locator(*this); }

  template <typename T>
  locator& set(T& t, const std::string key = "")
  {
    services[Key(typeid(T).name(), key)] = &t;
    return *this;
  }
  template <typename T>
  T* try_get(const std::string key = "") const
  {
    auto it = services.find(Key(typeid(T).name(), key));
    if (it != services.end() && it->second) return reinterpret_cast<T*>(it->second);
    return nullptr;
  }
  template <typename T>
  T& get(const std::string key = "") const
  {
    if (T* t = try_get<T>(key)) return *t;
    throw std::runtime_error("<" + std::string(typeid(T).name()) + ",\"" + key + "\"> not available");
  }

  // harness-only introspection (the real locator keeps this private)
  std::vector<std::pair<Key, const void*>> sim_contents() const
  {
    std::vector<std::pair<Key, const void*>> r;
    for (auto& kv : services) r.emplace_back(kv.first, kv.second);
    return r;
  }

private:
  locator(const locator&) = default;
  std::map<Key, void*> services;
};
} // namespace dzn
#endif
