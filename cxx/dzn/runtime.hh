// Mock of the Dezyne C++ runtime: dzn::runtime.  SIMULATED component of the verification harness.
#ifndef DZN_RUNTIME_HH
#define DZN_RUNTIME_HH
#include <dzn/locator.hh>
#include <dzn/meta.hh>
#include <functional>
#include <map>
#include <queue>
#include <stdexcept>
#include <string>

namespace dzn
{
struct runtime
{
  runtime();
  ~runtime();
  runtime(const runtime&) = delete;
  runtime& operator=(const runtime&) = delete;
  int sim_id;
};
} // namespace dzn
#endif
