// Simulation harness driver + mock Dezyne runtime implementation (World A).
// SIMULATED/HARNESS code - not part of dznpy.
#include "harness.hh"

#include <algorithm>
#include <cstdio>
#include <cstdlib>
#include <cstring>
#include <exception>
#include <fstream>
#include <map>
#include <memory>
#include <new>
#include <sstream>

#include <signal.h>
#include <sys/wait.h>
#include <unistd.h>

extern "C" void __sanitizer_set_death_callback(void (*)(void)) __attribute__((weak));


namespace sim
{
// ============================================================================= shared (immutable after setup)
static Model g_model;

struct Script
{
  long long reply = 0;
  int grant_wish = 1;
  std::vector<int> follow;
};
struct Op
{
  char kind;  // 'O' call, 'Y' claim cycle, 'W' idle yields
  int a[6];
};
struct TaskSpec
{
  std::string name;
  std::vector<Op> ops;
  int pre = 0;   // runs (to completion) after the ports are bound but BEFORE FinalConstruct
};
struct Unbind
{
  int side, ev, client;
};
struct Run
{
  std::string id;
  sim_config sc{};
  std::vector<int> explicit_sched;
  int loc_pump = 0, loc_runtime = 0, loc_svcs = 0;
  std::vector<int> inj_present;  // indexed by port
  int n_clients = 0;
  std::vector<std::string> client_names;
  std::vector<Unbind> unbinds;
  int parent_mode = 0;
  int probes = 0;
  int scrub = 1;
  int slowlog = 0;
  int connect = 0;
  int templog = 0;
  int lazycomp = 0;   // the wrapped component does not look up the runtime itself (a hand-written component need not)
  int idquery = 0;    // ask for the client identifiers after this many registrations (0 = only at the end)
  int setuporder = 0; // 1: handlers are bound right after each port/client is obtained (instead of registering everything first)
  int reentryfc = 0;  // the user's log sink calls the shell's FinalConstruct when it receives its k-th message
  int refetch = 0;    // the user does not keep the port it got from the accessor but asks the accessor again for every call
  int hquery = 0;     // the user's out-event handlers of the multi-client port ask the shell for the client identifiers
  int temploc = 0;    // 'create' only: the prototype locator handed to the constructor is destroyed right after construction
  int reentry = 0;    // the user's log sink registers one more client ('monitor') when it receives its k-th message
  int sibling = 0;    // 1/2: a second, independent instance of the same shell type lives in the process (set up before / after the main one)
  std::vector<TaskSpec> tasks;
  std::map<std::pair<int, int>, std::vector<Script>> scripts;
};
static Run g_run;
static void* g_shell = nullptr;
static void* g_comp = nullptr;
static std::vector<void*> g_inner_obj;                // per port
static std::vector<std::vector<void*>> g_outer_obj;   // per port, per client (index 0 for ordinary ports)
static std::vector<std::pair<const void*, std::string>> g_labels;
static std::vector<dzn::pump*> g_pumps;
static int g_idle_flag = -1;
static const int CTR_PENDING = 8;

static std::string label_of(const void* p)
{
  for (auto& kv : g_labels)
    if (kv.first == p) return kv.second;
  return "unknown";
}
static void add_label(const void* p, const std::string& l) { g_labels.emplace_back(p, l); }

static std::string join(const std::vector<long long>& v)
{
  if (v.empty()) return "-";
  std::string s;
  for (size_t i = 0; i < v.size(); ++i)
  {
    if (i) s += ',';
    s += std::to_string(v[i]);
  }
  return s;
}
static std::string sanitize(const std::string& in)
{
  std::string s = in;
  for (auto& c : s)
    if (c == ' ' || c == '\n' || c == '\t') c = '_';
  if (s.size() > 200) s.resize(200);
  return s.empty() ? "-" : s;
}
// A sibling instance of the same shell type (fault kind "more than one instance per process"): set up quietly, then idle.
// Anything that reaches it afterwards is cross-talk; at the end it must still be exactly as it was left.
static void* g_sib_shell = nullptr;
static void* g_sib_comp = nullptr;
static std::vector<void*> g_sib_inner;
// cross-task state lives in kernel counters (invisible to TSan, like all harness state):
static const int CTR_SIB_PHASE = 9;    // 0 = none/idle (nothing may reach the sibling), 1 = being set up, 2 = being inspected
static const int CTR_QUIET = 10;       // records of the sibling's own set-up are not part of the judged history
static const int CTR_SIB_NDELIV = 11;  // out-events the sibling's user side received while being inspected
static const int CTR_SIB_LASTCL = 12;  // ... and the client that got the last one
static const int CTR_FCSTATE = 13;     // 0 = FinalConstruct not called yet, 1 = inside, 2 = returned, 3 = threw
static const int CTR_LOGCOUNT = 14;    // messages the user's log sink has received
static const int CTR_GEN_BASE = 200;   // + client: how often that client's out-event handlers have been re-bound
static void set_ctr(int c, long v) { sim_ctr_add(c, v - sim_ctr_get(c)); }
extern dzn::meta parent_meta;   // the parent every FinalConstruct(parent) call of the harness passes
static std::string pct_encode(const std::string& in)
{
  static const char* hex = "0123456789ABCDEF";
  std::string o;
  for (unsigned char c : in)
  {
    if ((c >= '0' && c <= '9') || (c >= 'a' && c <= 'z') || (c >= 'A' && c <= 'Z') || c == '-' || c == '_' || c == '.' || c == '~') o += static_cast<char>(c);
    else
    {
      o += '%';
      o += hex[c >> 4];
      o += hex[c & 15];
    }
  }
  return o;
}
static std::string pct_decode(const std::string& in)
{
  std::string o;
  for (size_t i = 0; i < in.size(); ++i)
  {
    if (in[i] == '%' && i + 2 < in.size() + 1)
    {
      o += static_cast<char>(std::stoi(in.substr(i + 1, 2), nullptr, 16));
      i += 2;
    }
    else o += in[i];
  }
  return o;
}
static void rec(const std::string& s)
{
  if (sim_ctr_get(CTR_QUIET) && s.compare(0, 7, "sibling") != 0 && s.compare(0, 5, "xtalk") != 0) return;
  sim_rec(s.c_str());
}

struct UserSvc
{
  int id;
};

// ============================================================================= call / handler bookkeeping
struct CallFrame
{
  long long cid;
  long waits, posts;
};
static thread_local std::vector<CallFrame> tl_frames;

long long call_begin(const EvCtx& c, const std::vector<long long>& in)
{
  const int me = sim_self();
  const long long cid = sim_ctr_add(CTR_CID, 1) - 1;
  tl_frames.push_back({cid, sim_ctr_get(CTR_WAITS_BASE + me), sim_ctr_get(CTR_POSTS_BASE + me)});
  if (c.side >= 2) return cid;
  rec("call cid=" + std::to_string(cid) + " ev=" + std::to_string(c.ev) + " side=" + (c.side ? "i" : "o") +
      " cl=" + std::to_string(c.client) + " in=" + join(in));
  return cid;
}

void call_end(const EvCtx& c, long long cid, bool has_reply, long long reply, const std::vector<long long>& out)
{
  const int me = sim_self();
  CallFrame f = tl_frames.back();
  tl_frames.pop_back();
  if (c.side >= 2) return;
  rec("ret cid=" + std::to_string(cid) + " ev=" + std::to_string(c.ev) + " reply=" + (has_reply ? std::to_string(reply) : std::string("-")) +
      " out=" + join(out) + " waits=" + std::to_string(sim_ctr_get(CTR_WAITS_BASE + me) - f.waits) +
      " posts=" + std::to_string(sim_ctr_get(CTR_POSTS_BASE + me) - f.posts));
}

HandlerPlan handler_enter(const EvCtx& c, const std::vector<long long>& in, size_t n_out, std::vector<long long>& out)
{
  if (c.side >= 2)
  {  // a handler of the sibling instance (2 = its wrapped component, 3 = its user side)
    HandlerPlan sib;
    sib.hid = -1;
    sib.reply = (c.side == 2 && c.ev == g_model.claim_ev) ? g_model.grant_value : 0;
    if (sim_ctr_get(CTR_SIB_PHASE) == 0)
      rec("xtalk ev=" + std::to_string(c.ev) + " side=" + (c.side == 2 ? "i" : "o") + " cl=" + std::to_string(c.client) + " in=" + join(in));
    else if (c.side == 3)
    {
      sim_ctr_add(CTR_SIB_NDELIV, 1);
      set_ctr(CTR_SIB_LASTCL, c.client);
    }
    for (size_t i = 0; i < n_out; ++i) out.push_back(0);
    return sib;
  }
  const int me = sim_self();
  HandlerPlan plan;
  plan.hid = sim_ctr_add(CTR_HID, 1) - 1;
  const long ord = sim_ctr_add(CTR_ORD_BASE + c.side * 256 + c.ev, 1) - 1;
  Script sc;
  auto it = g_run.scripts.find({c.side, c.ev});
  if (it != g_run.scripts.end() && !it->second.empty()) sc = it->second[static_cast<size_t>(ord) % it->second.size()];
  plan.reply = sc.reply;
  plan.follow = sc.follow;
  if (c.side == 1 && c.ev == g_model.claim_ev)
  {
    if (sc.grant_wish && sim_ctr_get(CTR_CLAIMED) == 0)
    {
      sim_ctr_add(CTR_CLAIMED, 1);
      plan.reply = g_model.grant_value;
    }
    else
    {
      const auto& dv = g_model.deny_values;
      plan.reply = dv[static_cast<size_t>(sc.reply < 0 ? -sc.reply : sc.reply) % dv.size()];
    }
  }
  if (c.side == 1 && c.ev == g_model.release_ev) sim_ctr_add(CTR_CLAIMED, -sim_ctr_get(CTR_CLAIMED));
  for (size_t i = 0; i < n_out; ++i) out.push_back(sim_token());
  const long depth = sim_ctr_get(CTR_EXEC_DEPTH_BASE + me);
  const long disp = depth > 0 ? sim_ctr_get(CTR_EXEC_PUMP_BASE + me) : -1;
  const bool valued = g_model.events[static_cast<size_t>(c.ev)].valued;
  rec("hdl hid=" + std::to_string(plan.hid) + " ev=" + std::to_string(c.ev) + " side=" + (c.side ? "i" : "o") +
      " cl=" + std::to_string(c.client) + " in=" + join(in) + " reply=" + (valued ? std::to_string(plan.reply) : std::string("-")) +
      " out=" + join(out) + " disp=" + std::to_string(disp) + " ord=" + std::to_string(ord) + " gen=" + std::to_string(c.gen));
  sim_yield(YK_HANDLER);
  if (g_run.hquery && c.side == 0 && g_model.mc_port >= 0 && g_model.events[static_cast<size_t>(c.ev)].port == g_model.mc_port && g_shell)
  {
    // fault kind "user handler re-enters the shell": while it handles an out-event of the multi-client port the user's
    // code asks the shell who is registered (a const helper any thread may call at any time after FinalConstruct)
    const size_t n = g_model.shell.client_ids(g_shell, g_model.mc_port).size();
    rec("handler_asked_identifiers n=" + std::to_string(n));
  }
  return plan;
}

void handler_follow(const EvCtx& c, const HandlerPlan& plan)
{
  if (c.side != 1) return;
  for (int f : plan.follow)
  {
    const EventDesc& e = g_model.events[static_cast<size_t>(f)];
    EvCtx cc{f, 1, -1};
    e.call(g_inner_obj[static_cast<size_t>(e.port)], cc);
  }
}

void handler_exit(const EvCtx& c, const HandlerPlan& plan)
{
  if (c.side >= 2) return;
  rec("hdl_end hid=" + std::to_string(plan.hid));
}

__attribute__((noinline)) void scrub_stack()
{
  volatile unsigned char buf[16384];
  for (size_t i = 0; i < sizeof(buf); ++i) buf[i] = 0xAB;
  asm volatile("" ::: "memory");
}

void log_sink(char level, const std::string& msg)
{
  rec(std::string("log lvl=") + level + " msg=" + sanitize(msg));
  if (g_run.reentryfc > 0 && !sim_ctr_get(CTR_QUIET) && sim_ctr_add(CTR_LOGCOUNT, 1) == g_run.reentryfc && g_shell && sim_ctr_get(CTR_FCSTATE) == 0)
  {
    // fault kind "user callback re-enters the shell", second flavour: the sink decides that set-up is complete and calls
    // FinalConstruct itself (everything obtained so far is bound in these worlds, so it may well succeed)
    try
    {
      set_ctr(CTR_FCSTATE, 1);
      g_model.shell.final_construct(g_shell, &parent_meta, false);
      set_ctr(CTR_FCSTATE, 2);
      rec("reentrant_fc result=ok");
    }
    catch (const dzn::binding_error& e)
    {
      set_ctr(CTR_FCSTATE, 0);
      rec("reentrant_fc result=throw exc=binding_error what=" + sanitize(e.what()));
    }
    catch (const std::exception& e)
    {
      set_ctr(CTR_FCSTATE, 0);
      rec("reentrant_fc result=throw exc=other what=" + sanitize(e.what()));
    }
  }
  if (g_run.reentry > 0 && !sim_ctr_get(CTR_QUIET) && sim_ctr_add(CTR_LOGCOUNT, 1) == g_run.reentry && g_shell && g_model.mc_port >= 0)
  {
    // fault kind "user callback re-enters the shell": the sink is user code and may use the shell's public interface -
    // here it registers a client of its own, whose events nobody binds
    const std::string st = std::to_string(sim_ctr_get(CTR_FCSTATE));
    try
    {
      g_model.ports[static_cast<size_t>(g_model.mc_port)].outer(g_shell, "monitor");
      rec("monitor_registered result=ok fcstate=" + st);
    }
    catch (const std::exception& e)
    {
      rec("monitor_registered result=throw fcstate=" + st + " what=" + sanitize(e.what()));
    }
  }
  sim_yield(YK_LOG);
  for (int i = 0; i < g_run.slowlog; ++i) sim_yield(YK_LOG);  // fault kind: slow log sink
}

bool log_object_is_temporary() { return g_run.templog != 0; }

// ============================================================================= component hook
static bool is_unbound(int side, int ev, int client)
{
  for (auto& u : g_run.unbinds)
    if (u.side == side && u.ev == ev && (u.client == client || u.client < 0)) return true;
  return false;
}

// Fault kind "the storage of the shell object is not zero-filled" (a stack frame, a recycled heap block): the glue
// constructs the shell with placement new in a block filled with 0xBE, under every sanitizer flavour alike, so that a
// member nobody initialises reads the same garbage in every execution.
void* garbage_block(size_t n)
{
  void* p = std::malloc(n ? n : 1);
  if (!p) throw std::bad_alloc();
  std::memset(p, 0xBE, n);
  return p;
}
void release_block(void* p) { std::free(p); }

dzn::runtime& component_runtime(const dzn::locator& loc)
{
  // A Dezyne-generated component looks the runtime up in its constructor (and so fails on a locator without one); a
  // hand-written component need not.  In the 'lazy' variant the shell's own facility checks are all there is.
  if (!g_run.lazycomp) return loc.get<dzn::runtime>();
  alignas(dzn::runtime) static unsigned char fallback[sizeof(dzn::runtime)];   // never used, never constructed (no record)
  dzn::runtime* r = loc.try_get<dzn::runtime>();
  return r ? *r : *reinterpret_cast<dzn::runtime*>(fallback);
}

void component_constructed(void* comp, const dzn::locator& loc)
{
  if (sim_ctr_get(CTR_SIB_PHASE) == 1)
  {
    g_sib_comp = comp;
    g_sib_inner.assign(g_model.ports.size(), nullptr);
    for (size_t pi = 0; pi < g_model.ports.size(); ++pi) g_sib_inner[pi] = g_model.ports[pi].inner(comp);
    for (size_t ei = 0; ei < g_model.events.size(); ++ei)
    {
      EventDesc& e = g_model.events[ei];
      const PortDesc& pd = g_model.ports[static_cast<size_t>(e.port)];
      if ((pd.provides && e.is_in) || (!pd.provides && !e.is_in)) e.bind(g_sib_inner[static_cast<size_t>(e.port)], EvCtx{static_cast<int>(ei), 2, -1});
    }
    return;
  }
  g_comp = comp;
  std::string s = "comp_ctor phase=" + std::to_string(sim_ctr_get(CTR_PHASE));
  dzn::pump* p = loc.try_get<dzn::pump>();
  dzn::runtime* r = loc.try_get<dzn::runtime>();
  s += " pump=" + (p ? label_of(p) : std::string("none"));
  s += " runtime=" + (r ? label_of(r) : std::string("none"));
  auto contents = loc.sim_contents();
  s += " n=" + std::to_string(contents.size()) + " entries=";
  std::vector<std::string> labels;
  for (auto& kv : contents) labels.push_back(label_of(kv.second) + "@" + sanitize(kv.first.second));
  std::sort(labels.begin(), labels.end());
  for (size_t i = 0; i < labels.size(); ++i) s += (i ? "," : "") + labels[i];
  if (labels.empty()) s += "-";
  rec(s);

  g_inner_obj.assign(g_model.ports.size(), nullptr);
  for (size_t pi = 0; pi < g_model.ports.size(); ++pi) g_inner_obj[pi] = g_model.ports[pi].inner(comp);
  for (size_t ei = 0; ei < g_model.events.size(); ++ei)
  {
    EventDesc& e = g_model.events[ei];
    const PortDesc& pd = g_model.ports[static_cast<size_t>(e.port)];
    const bool inner_handles = (pd.provides && e.is_in) || (!pd.provides && !e.is_in);
    if (!inner_handles) continue;
    if (is_unbound(1, static_cast<int>(ei), -1)) continue;
    e.bind(g_inner_obj[static_cast<size_t>(e.port)], EvCtx{static_cast<int>(ei), 1, -1});
  }
}
}  // namespace sim

// ============================================================================= mock runtime
namespace dzn
{
runtime::runtime()
{
  sim_id = static_cast<int>(sim_ctr_add(sim::CTR_RUNTIME_IDS, 1) - 1);
  sim::add_label(this, "runtime#" + std::to_string(sim_id));
  sim::rec("runtime_ctor id=" + std::to_string(sim_id) + " phase=" + std::to_string(sim_ctr_get(sim::CTR_PHASE)));
}
runtime::~runtime() {}

pump::pump()
{
  sim_id = static_cast<int>(sim_ctr_add(sim::CTR_PUMP_IDS, 1) - 1);
  sim::add_label(this, "pump#" + std::to_string(sim_id));
  sim::rec("pump_ctor id=" + std::to_string(sim_id) + " phase=" + std::to_string(sim_ctr_get(sim::CTR_PHASE)));
  m_sem = sim_sem_new(0);
  m_stop_flag = sim_flag_new();
  const std::string name = "pump" + std::to_string(sim_id);
  sim::g_pumps.push_back(this);
  m_worker = sim_spawn(name.c_str(), &pump::sim_worker, this, 1, 1);
}

void pump::sim_stop()
{
  if (m_worker < 0) return;
  sim_flag_set(m_stop_flag);
  sim_sem_post(m_sem);
  sim_task_join(m_worker);
  m_worker = -1;
}

pump::~pump()
{
  sim_stop();
  sim::g_pumps.erase(std::remove(sim::g_pumps.begin(), sim::g_pumps.end(), this), sim::g_pumps.end());
}

void pump::operator()(const std::function<void()>& event)
{
  const int me = sim_self();
  sim_yield(YK_POST);
  {
    std::lock_guard<std::mutex> lock(m_mutex);
    m_queue.push_back(event);
  }
  sim_ctr_add(sim::CTR_POSTS_BASE + me, 1);
  sim_ctr_add(sim::CTR_PUMP_POSTS_BASE + sim_id, 1);
  sim_ctr_add(sim::CTR_PENDING, 1);
  sim::rec("post pump=" + std::to_string(sim_id));
  sim_sem_post(m_sem);
}

void pump::sim_worker(void* selfp)
{
  pump& p = *static_cast<pump*>(selfp);
  const int me = sim_self();
  const int id = p.sim_id;
  for (;;)
  {
    sim_sem_wait(p.m_sem);
    std::function<void()> f;
    bool have = false;
    {
      std::lock_guard<std::mutex> lock(p.m_mutex);
      if (!p.m_queue.empty())
      {
        f = std::move(p.m_queue.front());
        p.m_queue.pop_front();
        have = true;
      }
    }
    if (!have)
    {
      if (sim_flag_isset(p.m_stop_flag)) break;
      continue;
    }
    sim_yield(YK_EXEC_PRE);
    sim_ctr_add(sim::CTR_EXEC_DEPTH_BASE + me, 1);
    sim_ctr_add(sim::CTR_EXEC_PUMP_BASE + me, id - sim_ctr_get(sim::CTR_EXEC_PUMP_BASE + me));
    sim::rec("exec pump=" + std::to_string(id));
    try
    {
      f();
    }
    catch (const std::exception& e)
    {
      sim::rec("exc where=closure what=" + sim::sanitize(e.what()));
      sim_finish(SIMX_EXCEPTION);
    }
    catch (...)
    {
      sim::rec("exc where=closure what=unknown");
      sim_finish(SIMX_EXCEPTION);
    }
    f = nullptr;
    sim_ctr_add(sim::CTR_EXEC_DEPTH_BASE + me, -1);
    sim::rec("exec_end pump=" + std::to_string(id));
    if (sim_ctr_add(sim::CTR_PENDING, -1) == 0 && sim::g_idle_flag >= 0) sim_flag_set(sim::g_idle_flag);
    sim_yield(YK_EXEC_POST);
  }
}

namespace sim_detail
{
completion::completion() : flag(sim_flag_new()) {}
void completion::complete()
{
  const int f = flag;
  done.store(1, std::memory_order_release);
  sim_flag_set(f);
}
void completion::wait(pump&)
{
  const int me = sim_self();
  const int f = flag;
  sim_ctr_add(sim::CTR_WAITS_BASE + me, 1);
  sim_flag_wait(f, YK_SHELL_WAIT);
  (void)done.load(std::memory_order_acquire);
  sim_yield(YK_SHELL_RET);
}
}  // namespace sim_detail
}  // namespace dzn

// ============================================================================= driver
namespace sim
{
static bool outer_handles(const EventDesc& e)
{
  const PortDesc& pd = g_model.ports[static_cast<size_t>(e.port)];
  return (pd.provides && !e.is_in) || (!pd.provides && e.is_in);
}

static CallResult outer_call(int ev, int client)
{
  const EventDesc& e = g_model.events[static_cast<size_t>(ev)];
  const PortDesc& pd = g_model.ports[static_cast<size_t>(e.port)];
  const size_t ci = (pd.sem == 2 && client >= 0) ? static_cast<size_t>(client) : 0;
  EvCtx cc{ev, 0, pd.sem == 2 ? client : -1};
  void* obj = g_outer_obj[static_cast<size_t>(e.port)][ci];
  if (g_run.refetch && !g_run.connect && pd.sem != 3 && sim_ctr_get(CTR_FCSTATE) == 2)
    obj = pd.outer(g_shell, pd.sem == 2 ? g_run.client_names[ci] : std::string());   // `shell.ProvidesX().port.in.Ev(...)` every time
  CallResult r = e.call(obj, cc);
  if (g_run.scrub) scrub_stack();
  return r;
}

// The user replaces the out-event handlers of one of its client ports (a new peer takes over) while the port is quiet:
// nothing is in flight, nobody else is calling.  In ConnectPorts mode the user's own port is re-bound and tied again.
static void rebind_client(int cl)
{
  if (g_model.mc_port < 0 || cl < 0 || static_cast<size_t>(cl) >= g_outer_obj[static_cast<size_t>(g_model.mc_port)].size()) return;
  while (sim_ctr_get(CTR_PENDING) > 0)
  {
    sim_flag_clear(g_idle_flag);
    if (sim_ctr_get(CTR_PENDING) > 0) sim_flag_wait(g_idle_flag, YK_BLOCK);
  }
  const int gen = static_cast<int>(sim_ctr_add(CTR_GEN_BASE + cl, 1));
  PortDesc& pd = g_model.ports[static_cast<size_t>(g_model.mc_port)];
  void* obj = g_outer_obj[static_cast<size_t>(g_model.mc_port)][static_cast<size_t>(cl)];
  for (size_t ei = 0; ei < g_model.events.size(); ++ei)
  {
    EventDesc& e = g_model.events[ei];
    if (e.port != g_model.mc_port || !outer_handles(e)) continue;
    EvCtx ctx{static_cast<int>(ei), 0, cl};
    ctx.gen = gen;
    e.bind(obj, ctx);
  }
  if (g_run.connect) pd.connect(g_shell, g_run.client_names[static_cast<size_t>(cl)], obj);
  rec("rebind cl=" + std::to_string(cl) + " gen=" + std::to_string(gen));
}

static void task_body(void* arg)
{
  const TaskSpec& t = *static_cast<const TaskSpec*>(arg);
  try
  {
    for (const Op& op : t.ops)
    {
      sim_yield(YK_OP);
      if (op.kind == 'O')
      {
        outer_call(op.a[0], op.a[1]);
      }
      else if (op.kind == 'W')
      {
        for (int i = 0; i < op.a[0]; ++i) sim_yield(YK_USER);
      }
      else if (op.kind == 'R')
      {
        rebind_client(op.a[0]);
      }
      else if (op.kind == 'Y')
      {
        // claim cycle: client a0, attempts a1, cycles a2, use event a3 (or -1), uses a4, idle yields between attempts a5
        const int client = op.a[0];
        int cycles = 0;
        for (int att = 0; att < op.a[1] && cycles < op.a[2]; ++att)
        {
          CallResult r = outer_call(g_model.claim_ev, client);
          if (r.has_reply && r.reply == g_model.grant_value)
          {
            rec("window_open cl=" + std::to_string(client));
            for (int u = 0; u < op.a[4]; ++u)
            {
              sim_yield(YK_OP);
              if (op.a[3] >= 0) outer_call(op.a[3], client);
            }
            rec("window_close cl=" + std::to_string(client));
            outer_call(g_model.release_ev, client);
            ++cycles;
          }
          for (int i = 0; i < op.a[5]; ++i) sim_yield(YK_USER);
        }
      }
    }
    rec("task_done");
  }
  catch (const std::exception& e)
  {
    rec("exc where=task what=" + sanitize(e.what()));
    sim_finish(SIMX_EXCEPTION);
  }
}

static std::string contents_digest(const dzn::locator& l)
{
  std::vector<std::string> labels;
  for (auto& kv : l.sim_contents()) labels.push_back(label_of(kv.second) + "@" + sanitize(kv.first.second));
  std::sort(labels.begin(), labels.end());
  std::string s;
  for (size_t i = 0; i < labels.size(); ++i) s += (i ? "," : "") + labels[i];
  return s.empty() ? "-" : s;
}

// ---- the sibling instance ---------------------------------------------------------------------------------------
struct Sibling
{
  dzn::locator loc;
  std::unique_ptr<dzn::pump> pump;
  std::unique_ptr<dzn::runtime> rt;
  std::vector<std::vector<void*>> outer;
  int holder = -1;
};
static std::unique_ptr<Sibling> g_sib;
static dzn::meta g_sib_parent{"sibling_parent", "SiblingParent", nullptr, {}, {}, {}};

static void sibling_setup()
{
  Run& R = g_run;
  g_sib.reset(new Sibling);
  Sibling& S = *g_sib;
  set_ctr(CTR_QUIET, 1);
  set_ctr(CTR_SIB_PHASE, 1);
  bool ok = false;
  try
  {
    if (R.loc_pump)
    {
      S.pump.reset(new dzn::pump);
      S.loc.set(*S.pump);
    }
    if (R.loc_runtime)
    {
      S.rt.reset(new dzn::runtime);
      S.loc.set(*S.rt);
    }
    S.outer.assign(g_model.ports.size(), {});
    for (size_t pi = 0; pi < g_model.ports.size(); ++pi)
    {
      PortDesc& pd = g_model.ports[pi];
      if (pd.sem != 3) continue;
      void* obj = pd.make_injected();
      S.outer[pi].push_back(obj);
      for (size_t ei = 0; ei < g_model.events.size(); ++ei)
      {
        EventDesc& e = g_model.events[ei];
        if (e.port == static_cast<int>(pi) && outer_handles(e)) e.bind(obj, EvCtx{static_cast<int>(ei), 3, -1});
      }
      pd.put_injected(S.loc, obj);
    }
    g_sib_shell = g_model.shell.construct(S.loc, "sibling_" + R.id);
    for (size_t pi = 0; pi < g_model.ports.size(); ++pi)
    {
      PortDesc& pd = g_model.ports[pi];
      if (pd.sem == 3) continue;
      if (pd.sem == 2)
        for (int k = 0; k < R.n_clients; ++k) S.outer[pi].push_back(pd.outer(g_sib_shell, R.client_names[static_cast<size_t>(k)]));
      else
        S.outer[pi].push_back(pd.outer(g_sib_shell, ""));
    }
    for (size_t ei = 0; ei < g_model.events.size(); ++ei)
    {
      EventDesc& e = g_model.events[ei];
      PortDesc& pd = g_model.ports[static_cast<size_t>(e.port)];
      if (pd.sem == 3 || !outer_handles(e)) continue;
      for (size_t k = 0; k < S.outer[static_cast<size_t>(e.port)].size(); ++k)
        e.bind(S.outer[static_cast<size_t>(e.port)][k], EvCtx{static_cast<int>(ei), 3, pd.sem == 2 ? static_cast<int>(k) : -1});
    }
    g_model.shell.final_construct(g_sib_shell, &g_sib_parent, false);
    if (g_model.mc_port >= 0 && R.n_clients > 0)
    {  // its last client claims (the sibling's component always grants) and keeps the claim for the rest of the run
      const int k = R.n_clients - 1;
      const EventDesc& claim = g_model.events[static_cast<size_t>(g_model.claim_ev)];
      CallResult r = claim.call(S.outer[static_cast<size_t>(g_model.mc_port)][static_cast<size_t>(k)], EvCtx{g_model.claim_ev, 3, k});
      if (r.has_reply && r.reply == g_model.grant_value) S.holder = k;
    }
    ok = true;
  }
  catch (const std::exception& e)
  {
    set_ctr(CTR_QUIET, 0);
    rec("sibling_setup result=throw what=" + sanitize(e.what()));
  }
  set_ctr(CTR_QUIET, 0);
  set_ctr(CTR_SIB_PHASE, 0);
  if (ok) rec("sibling_setup result=ok holder=" + std::to_string(S.holder));
  else
  {
    g_sib_shell = nullptr;   // a world in which construction is impossible: nothing to compare against
  }
}

static void sibling_check()
{
  if (!g_sib || !g_sib_shell) return;
  Run& R = g_run;
  Sibling& S = *g_sib;
  set_ctr(CTR_QUIET, 1);
  set_ctr(CTR_SIB_PHASE, 2);
  set_ctr(CTR_SIB_NDELIV, 0);
  set_ctr(CTR_SIB_LASTCL, -1);
  std::string verdict;
  try
  {
    const bool parent_ok = g_model.shell.comp_parent(g_sib_comp) == &g_sib_parent;
    bool ids_ok = true;
    std::string delivered = "-";
    if (g_model.mc_port >= 0)
    {
      std::vector<std::string> want(R.client_names.begin(), R.client_names.begin() + R.n_clients);
      std::sort(want.begin(), want.end());
      std::vector<std::string> got = g_model.shell.client_ids(g_sib_shell, g_model.mc_port);
      std::sort(got.begin(), got.end());
      ids_ok = got == want;
      for (size_t ei = 0; ei < g_model.events.size(); ++ei)
      {
        const EventDesc& e = g_model.events[ei];
        if (e.port != g_model.mc_port || e.is_in) continue;
        e.call(g_sib_inner[static_cast<size_t>(e.port)], EvCtx{static_cast<int>(ei), 2, -1});   // its component raises one out-event
        const long n = sim_ctr_get(CTR_SIB_NDELIV);
        delivered = n == 0 ? std::string("none") : n == 1 ? std::to_string(sim_ctr_get(CTR_SIB_LASTCL)) : std::string("many");
        break;
      }
    }
    verdict = std::string("parent_ok=") + (parent_ok ? "1" : "0") + " ids_ok=" + (ids_ok ? "1" : "0") + " delivered=" + delivered +
              " holder=" + std::to_string(S.holder);
  }
  catch (const std::exception& e)
  {
    verdict = "exc=" + sanitize(e.what());
  }
  set_ctr(CTR_QUIET, 0);
  set_ctr(CTR_SIB_PHASE, 0);
  rec("sibling_check " + verdict);
}

// ---- the companion shell: ANOTHER generated shell type in the same program (same component, other facilities origin).
// It is constructed once, from a locator that is valid for its origin, and destroyed again; that must simply work.
static void companion_probe()
{
  if (!g_model.shell.companion) return;
  set_ctr(CTR_QUIET, 1);
  set_ctr(CTR_SIB_PHASE, 1);   // its component's constructor hook binds throw-away handlers, like the sibling's
  std::string verdict = "ok";
  {
    dzn::locator loc;
    std::unique_ptr<dzn::pump> pump;
    std::unique_ptr<dzn::runtime> rt;
    std::vector<void*> injected;
    try
    {
      if (!g_model.companion_creates)
      {
        pump.reset(new dzn::pump);
        rt.reset(new dzn::runtime);
        loc.set(*pump);
        loc.set(*rt);
      }
      for (size_t pi = 0; pi < g_model.ports.size(); ++pi)
      {
        PortDesc& pd = g_model.ports[pi];
        if (pd.sem != 3) continue;
        void* obj = pd.make_injected();
        pd.put_injected(loc, obj);
      }
      g_model.shell.companion(loc);
    }
    catch (const std::exception& e)
    {
      verdict = std::string("throw what=") + sanitize(e.what());
    }
    if (pump) pump->sim_stop();
  }
  set_ctr(CTR_QUIET, 0);
  set_ctr(CTR_SIB_PHASE, 0);
  rec("companion_ctor result=" + verdict);
}

dzn::meta parent_meta{"parent", "Parent", nullptr, {}, {}, {}};

static void death_callback() { sim_flush(99); }

static void execute_run(int out_fd)
{
  Run& R = g_run;
  R.sc.out_fd = out_fd;
  R.sc.explicit_sched = R.explicit_sched.empty() ? nullptr : R.explicit_sched.data();
  R.sc.n_explicit = static_cast<int>(R.explicit_sched.size());
  if (__sanitizer_set_death_callback) __sanitizer_set_death_callback(death_callback);
  sim_start(&R.sc);
  g_idle_flag = sim_flag_new();
  try
  {
    // ---- user's locator
    dzn::locator uloc;
    std::unique_ptr<dzn::pump> upump;
    std::unique_ptr<dzn::runtime> urt;
    std::vector<std::unique_ptr<UserSvc>> svcs;
    if (R.loc_pump)
    {
      upump.reset(new dzn::pump);
      uloc.set(*upump);
    }
    if (R.loc_runtime)
    {
      urt.reset(new dzn::runtime);
      uloc.set(*urt);
    }
    for (int k = 0; k < R.loc_svcs; ++k)
    {
      svcs.emplace_back(new UserSvc{k});
      add_label(svcs.back().get(), "svc#" + std::to_string(k));
      uloc.set(*svcs.back(), "svc" + std::to_string(k));
    }
    g_outer_obj.assign(g_model.ports.size(), {});
    for (size_t pi = 0; pi < g_model.ports.size(); ++pi)
    {
      PortDesc& pd = g_model.ports[pi];
      if (pd.sem != 3) continue;
      if (pi < R.inj_present.size() && !R.inj_present[pi]) continue;
      void* obj = pd.make_injected();
      add_label(obj, "inj:" + pd.name);
      g_outer_obj[pi].push_back(obj);
      for (size_t ei = 0; ei < g_model.events.size(); ++ei)
      {
        EventDesc& e = g_model.events[ei];
        if (e.port != static_cast<int>(pi) || !outer_handles(e)) continue;
        if (is_unbound(0, static_cast<int>(ei), -1)) continue;
        e.bind(obj, EvCtx{static_cast<int>(ei), 0, -1});
      }
      pd.put_injected(uloc, obj);
    }
    const std::string proto_before = contents_digest(uloc);
    rec("user_locator entries=" + proto_before);
    companion_probe();
    if (R.sibling == 1) sibling_setup();

    // ---- construct the shell
    std::unique_ptr<dzn::locator> temp_loc;
    if (R.temploc) temp_loc.reset(new dzn::locator(uloc.clone()));
    const dzn::locator& passed = temp_loc ? *temp_loc : uloc;
    sim_ctr_add(CTR_PHASE, 1);
    try
    {
      g_shell = g_model.shell.construct(passed, "inst_" + R.id);
    }
    catch (const std::exception& e)
    {
      sim_ctr_add(CTR_PHASE, 1);
      rec("shell_ctor result=throw what=" + sanitize(e.what()));
      rec("proto_after entries=" + contents_digest(passed));
      if (upump) upump->sim_stop();
      sim_join_threads();
      sim_finish(SIMX_OK);
    }
    sim_ctr_add(CTR_PHASE, 1);
    rec("shell_ctor result=ok");
    rec("proto_after entries=" + contents_digest(passed));
    if (temp_loc)
    {  // a 'create' shell works on its own clone: the user's prototype need not outlive the constructor call
      temp_loc.reset();
      rec("prototype_locator_destroyed");
    }
    {
      dzn::locator* sl = g_model.shell.locator(g_shell);
      rec(std::string("locator_accessor present=") + (sl ? "1" : "0") + " entries=" + (sl ? contents_digest(*sl) : std::string("-")));
    }
    rec("comp_name value=" + sanitize(g_model.shell.comp_name(g_comp)));

    auto bind_object = [&](size_t pi, size_t k) {
      PortDesc& pd = g_model.ports[pi];
      for (size_t ei = 0; ei < g_model.events.size(); ++ei)
      {
        EventDesc& e = g_model.events[ei];
        if (e.port != static_cast<int>(pi) || !outer_handles(e)) continue;
        e.bind(g_outer_obj[pi][k], EvCtx{static_cast<int>(ei), 0, pd.sem == 2 ? static_cast<int>(k) : -1});
      }
    };
    if (R.setuporder)
    {
      // another legal order of the user's set-up steps: every port is bound as soon as it has been obtained - the plain
      // ports first, then client by client: register, bind, next client
      for (size_t pi = 0; pi < g_model.ports.size(); ++pi)
      {
        PortDesc& pd = g_model.ports[pi];
        if (pd.sem == 3 || pd.sem == 2) continue;
        g_outer_obj[pi].push_back(pd.outer(g_shell, ""));
        rec("port_identity port=" + std::to_string(pi) + " same=" + (g_outer_obj[pi][0] == g_inner_obj[pi] ? "1" : "0"));
        bind_object(pi, 0);
      }
      for (size_t pi = 0; pi < g_model.ports.size(); ++pi)
      {
        PortDesc& pd = g_model.ports[pi];
        if (pd.sem != 2) continue;
        for (int k = 0; k < R.n_clients; ++k)
        {
          try
          {
            void* obj = pd.outer(g_shell, R.client_names[static_cast<size_t>(k)]);
            g_outer_obj[pi].push_back(obj);
            rec("client_registered cl=" + std::to_string(k) + " fcstate=" + std::to_string(sim_ctr_get(CTR_FCSTATE)));
            bind_object(pi, g_outer_obj[pi].size() - 1);
          }
          catch (const std::exception& e)
          {
            rec("client_register_failed cl=" + std::to_string(k) + " fcstate=" + std::to_string(sim_ctr_get(CTR_FCSTATE)) + " what=" + sanitize(e.what()));
          }
        }
        std::string ids;
        for (auto& s : g_model.shell.client_ids(g_shell, static_cast<int>(pi))) ids += (ids.empty() ? "" : ",") + pct_encode(s);
        rec("client_ids_setup port=" + std::to_string(pi) + " ids=" + (ids.empty() ? "-" : ids));
      }
    }
    // ---- outer port objects, registration of multi-client clients
    for (size_t pi = 0; !R.setuporder && pi < g_model.ports.size(); ++pi)
    {
      PortDesc& pd = g_model.ports[pi];
      if (pd.sem == 3) continue;
      if (pd.sem == 2)
      {
        for (int k = 0; k < R.n_clients; ++k)
        {
          g_outer_obj[pi].push_back(pd.outer(g_shell, R.client_names[static_cast<size_t>(k)]));
          if (R.idquery == k + 1 && k + 1 < R.n_clients)
          {  // a user (diagnostics, logging) may ask for the identifiers at any time during registration
            std::string early;
            for (auto& s : g_model.shell.client_ids(g_shell, static_cast<int>(pi))) early += (early.empty() ? "" : ",") + pct_encode(s);
            rec("client_ids_early port=" + std::to_string(pi) + " after=" + std::to_string(k + 1) + " ids=" + (early.empty() ? "-" : early));
          }
        }
        {
          // every registered client got its own port object
          bool distinct = true;
          for (size_t a = 0; a < g_outer_obj[pi].size(); ++a)
            for (size_t b = a + 1; b < g_outer_obj[pi].size(); ++b)
              if (g_outer_obj[pi][a] == g_outer_obj[pi][b]) distinct = false;
          rec(std::string("client_ports distinct=") + (distinct ? "1" : "0") + " n=" + std::to_string(g_outer_obj[pi].size()));
        }
        std::string ids;
        for (auto& s : g_model.shell.client_ids(g_shell, static_cast<int>(pi))) ids += (ids.empty() ? "" : ",") + pct_encode(s);
        rec("client_ids port=" + std::to_string(pi) + " ids=" + (ids.empty() ? "-" : ids));
      }
      else
      {
        g_outer_obj[pi].push_back(pd.outer(g_shell, ""));
        rec("port_identity port=" + std::to_string(pi) + " same=" + (g_outer_obj[pi][0] == g_inner_obj[pi] ? "1" : "0"));
      }
    }
    // ---- bind user-side handlers
    // direct mode: handlers are assigned on the port object the accessor hands out;
    // connect mode: the user owns a port object of its own, binds its handlers there and ties it to the shell with
    // <ns>::ConnectPorts(strict port, strict port) - afterwards the user calls through its own port object.
    std::vector<std::vector<void*>> shell_side = g_outer_obj;
    if (R.connect)
    {
      for (size_t pi = 0; pi < g_model.ports.size(); ++pi)
      {
        PortDesc& pd = g_model.ports[pi];
        if (pd.sem == 3) continue;
        for (size_t k = 0; k < g_outer_obj[pi].size(); ++k) g_outer_obj[pi][k] = pd.make_user();
      }
    }
    for (size_t ei = 0; !R.setuporder && ei < g_model.events.size(); ++ei)
    {
      EventDesc& e = g_model.events[ei];
      PortDesc& pd = g_model.ports[static_cast<size_t>(e.port)];
      if (pd.sem == 3 || !outer_handles(e)) continue;
      for (size_t k = 0; k < g_outer_obj[static_cast<size_t>(e.port)].size(); ++k)
      {
        const int cl = pd.sem == 2 ? static_cast<int>(k) : -1;
        if (is_unbound(0, static_cast<int>(ei), cl)) { e.unbind(g_outer_obj[static_cast<size_t>(e.port)][k]); continue; }
        e.bind(g_outer_obj[static_cast<size_t>(e.port)][k], EvCtx{static_cast<int>(ei), 0, cl});
      }
    }
    if (R.connect)
    {
      for (size_t pi = 0; pi < g_model.ports.size(); ++pi)
      {
        PortDesc& pd = g_model.ports[pi];
        if (pd.sem == 3) continue;
        for (size_t k = 0; k < g_outer_obj[pi].size(); ++k)
          pd.connect(g_shell, pd.sem == 2 ? R.client_names[k] : std::string(), g_outer_obj[pi][k]);
      }
      rec("connected mode=ConnectPorts");
    }
    // unbinding of events whose handler the shell or component provides (user cannot leave those unbound on MTS
    // ports, but on STS ports the outer object is the component's own port): side 0 + handler inside
    for (auto& u : R.unbinds)
    {
      if (u.side != 2) continue;  // side 2: clear whatever is bound on the outer object after construction
      EventDesc& e = g_model.events[static_cast<size_t>(u.ev)];
      const size_t k = u.client >= 0 ? static_cast<size_t>(u.client) : 0;
      e.unbind(g_outer_obj[static_cast<size_t>(e.port)][k]);
    }

    // ---- clients that use their (bound) ports before the user gets round to FinalConstruct
    {
      bool any = false;
      for (auto& t : R.tasks)
        if (t.pre)
        {
          sim_spawn(t.name.c_str(), &task_body, &t, 0, 0);
          any = true;
        }
      if (any)
      {
        sim_join_all();
        while (sim_ctr_get(CTR_PENDING) > 0)
        {
          sim_flag_clear(g_idle_flag);
          if (sim_ctr_get(CTR_PENDING) > 0) sim_flag_wait(g_idle_flag, YK_BLOCK);
        }
        rec("early_use_done");
      }
    }

    // ---- final construction
    bool fc_ok = false;
    try
    {
      set_ctr(CTR_FCSTATE, 1);
      g_model.shell.final_construct(g_shell, &parent_meta, R.parent_mode == 0);
      set_ctr(CTR_FCSTATE, 2);
      fc_ok = true;
      const dzn::meta* got = g_model.shell.comp_parent(g_comp);
      const dzn::meta* want = R.parent_mode == 0 ? nullptr : &parent_meta;
      rec(std::string("fc result=ok parent_ok=") + (got == want ? "1" : "0"));
    }
    catch (const dzn::binding_error& e)
    {
      set_ctr(CTR_FCSTATE, 3);
      rec("fc result=throw exc=binding_error what=" + sanitize(e.what()));
    }
    catch (const std::exception& e)
    {
      set_ctr(CTR_FCSTATE, 3);
      rec("fc result=throw exc=other what=" + sanitize(e.what()));
    }
    if (!fc_ok && (R.probes & 2))
    {
      // the user catches the error and simply tries again: nothing has been bound in between, so it must fail again
      try
      {
        g_model.shell.final_construct(g_shell, &parent_meta, R.parent_mode == 0);
        rec("fc_retry result=ok");
      }
      catch (const std::exception& e)
      {
        rec("fc_retry result=throw what=" + sanitize(e.what()));
      }
    }

    if (fc_ok && g_model.mc_port < 0 && (R.probes & 4))
    {
      // a shell without a multi-client port may be final-constructed again (e.g. after being moved to another parent): with
      // everything still bound it succeeds again and records the parent given THIS time
      try
      {
        const bool use_default = R.parent_mode != 0;   // the other way round than the first call
        g_model.shell.final_construct(g_shell, &parent_meta, use_default);
        const dzn::meta* got = g_model.shell.comp_parent(g_comp);
        const dzn::meta* want = use_default ? nullptr : &parent_meta;
        rec(std::string("fc_again result=ok parent_ok=") + (got == want ? "1" : "0"));
      }
      catch (const std::exception& e)
      {
        rec("fc_again result=throw what=" + sanitize(e.what()));
      }
    }
    if (fc_ok && g_model.mc_port >= 0 && (R.probes & 1))
    {
      PortDesc& pd = g_model.ports[static_cast<size_t>(g_model.mc_port)];
      try
      {
        pd.outer(g_shell, "latecomer");
        rec("probe_register_after_fc result=ok");
      }
      catch (const std::exception& e)
      {
        rec("probe_register_after_fc result=throw what=" + sanitize(e.what()));
      }
      try
      {  // the refused registration must not have left anything behind: asking again is refused again ...
        pd.outer(g_shell, "latecomer");
        rec("probe_register_again result=ok");
      }
      catch (const std::exception& e)
      {
        rec("probe_register_again result=throw what=" + sanitize(e.what()));
      }
      {  // ... and the registry lists exactly the clients registered before FinalConstruct
        std::string ids;
        for (auto& s : g_model.shell.client_ids(g_shell, g_model.mc_port)) ids += (ids.empty() ? "" : ",") + pct_encode(s);
        rec("client_ids_after_probe ids=" + (ids.empty() ? std::string("-") : ids));
      }
      if (R.n_clients > 0)
      {
        try
        {
          void* again = pd.outer(g_shell, R.client_names[0]);
          rec(std::string("probe_fetch_existing result=ok same=") + (again == shell_side[static_cast<size_t>(g_model.mc_port)][0] ? "1" : "0"));
        }
        catch (const std::exception& e)
        {
          rec("probe_fetch_existing result=throw what=" + sanitize(e.what()));
        }
      }
    }

    if (fc_ok)
    {  // the locator accessor of a 'create' shell is there for good, not only until FinalConstruct
      try
      {
        dzn::locator* sl = g_model.shell.locator(g_shell);
        rec(std::string("locator_after_fc result=ok present=") + (sl ? "1" : "0") + " entries=" + (sl ? contents_digest(*sl) : std::string("-")));
      }
      catch (const std::exception& e)
      {
        rec("locator_after_fc result=throw what=" + sanitize(e.what()));
      }
    }
    if (R.sibling == 2) sibling_setup();

    // ---- workload
    if (fc_ok)
    {
      for (auto& t : R.tasks)
        if (!t.pre) sim_spawn(t.name.c_str(), &task_body, &t, 0, 0);
      sim_join_all();
      while (sim_ctr_get(CTR_PENDING) > 0)
      {
        sim_flag_clear(g_idle_flag);
        if (sim_ctr_get(CTR_PENDING) > 0) sim_flag_wait(g_idle_flag, YK_BLOCK);
      }
      rec("quiesced");
      sim_join_finished();  // client/peer threads are joined (a real happens-before edge) before teardown
    }

    sibling_check();

    // ---- teardown
    for (auto* p : std::vector<dzn::pump*>(g_pumps)) p->sim_stop();
    g_model.shell.destroy(g_shell);
    g_shell = nullptr;
    if (g_sib_shell) g_model.shell.destroy(g_sib_shell);
    g_sib_shell = nullptr;
    g_sib.reset();
    upump.reset();
    sim_join_threads();
    rec("teardown_done tracked_copies=" + std::to_string(sim_ctr_get(CTR_TRACKED_COPIES)));
    sim_finish(SIMX_OK);
  }
  catch (const std::exception& e)
  {
    rec("exc where=main what=" + sanitize(e.what()));
    sim_finish(SIMX_EXCEPTION);
  }
}

// ----------------------------------------------------------------------------- tape parsing
static bool parse_run(const std::vector<std::string>& lines, Run& R)
{
  R = Run();
  R.sc.policy = POL_UNIFORM;
  R.sc.step_budget = 200000;
  R.sc.trace_decisions = 1;
  R.inj_present.assign(g_model.ports.size(), 1);
  for (const std::string& line : lines)
  {
    std::istringstream is(line);
    std::string kw;
    is >> kw;
    if (kw == "RUN") is >> R.id;
    else if (kw == "CFG")
    {
      long long seed;
      is >> seed >> R.sc.policy >> R.sc.p1 >> R.sc.p2 >> R.sc.stall_from >> R.sc.stall_len >> R.sc.step_budget >> R.sc.trace_decisions;
      R.sc.seed = static_cast<unsigned long long>(seed);
    }
    else if (kw == "X")
    {
      int v;
      while (is >> v) R.explicit_sched.push_back(v);
      if (R.explicit_sched.empty()) R.explicit_sched.push_back(-1);
    }
    else if (kw == "LOC") is >> R.loc_pump >> R.loc_runtime >> R.loc_svcs;
    else if (kw == "INJ")
    {
      int port, present;
      is >> port >> present;
      if (port >= 0 && static_cast<size_t>(port) < R.inj_present.size()) R.inj_present[static_cast<size_t>(port)] = present;
    }
    else if (kw == "CLIENTS")
    {
      is >> R.n_clients;
      std::string nm;
      while (is >> nm) R.client_names.push_back(pct_decode(nm));   // identifiers are arbitrary strings: percent-coded on the tape
      for (int k = static_cast<int>(R.client_names.size()); k < R.n_clients; ++k) R.client_names.push_back("client" + std::to_string(k));
    }
    else if (kw == "UNBIND")
    {
      Unbind u;
      is >> u.side >> u.ev >> u.client;
      R.unbinds.push_back(u);
    }
    else if (kw == "PARENT") is >> R.parent_mode;
    else if (kw == "PROBES") is >> R.probes;
    else if (kw == "SCRUB") is >> R.scrub;
    else if (kw == "SLOWLOG") is >> R.slowlog;
    else if (kw == "CONNECT") is >> R.connect;
    else if (kw == "TEMPLOG") is >> R.templog;
    else if (kw == "LAZYCOMP") is >> R.lazycomp;
    else if (kw == "IDQUERY") is >> R.idquery;
    else if (kw == "SIBLING") is >> R.sibling;
    else if (kw == "REENTRY") is >> R.reentry;
    else if (kw == "TEMPLOC") is >> R.temploc;
    else if (kw == "HQUERY") is >> R.hquery;
    else if (kw == "REFETCH") is >> R.refetch;
    else if (kw == "SETUPORDER") is >> R.setuporder;
    else if (kw == "REENTRYFC") is >> R.reentryfc;
    else if (kw == "TASK")
    {
      TaskSpec t;
      std::string flag;
      is >> t.name >> flag;
      t.pre = flag == "pre" ? 1 : 0;
      R.tasks.push_back(t);
    }
    else if (kw == "O" || kw == "Y" || kw == "W" || kw == "R")
    {
      if (R.tasks.empty()) return false;
      Op op{};
      op.kind = kw[0];
      for (int i = 0; i < 6; ++i) op.a[i] = 0;
      int i = 0, v;
      while (i < 6 && is >> v) op.a[i++] = v;
      R.tasks.back().ops.push_back(op);
    }
    else if (kw == "S")
    {
      // S <side> <ev> <reply> <grant_wish> <nfollow> <follow...>
      int side, ev, nf;
      Script sc;
      is >> side >> ev >> sc.reply >> sc.grant_wish >> nf;
      for (int i = 0; i < nf; ++i)
      {
        int f;
        is >> f;
        sc.follow.push_back(f);
      }
      R.scripts[{side, ev}].push_back(sc);
    }
    else if (kw == "END" || kw.empty() || kw[0] == '#') {}
    else return false;
  }
  return true;
}

int harness_main(int argc, char** argv)
{
  if (argc < 2)
  {
    std::fprintf(stderr, "usage: %s <tapefile> | --describe\n", argv[0]);
    return 2;
  }
  register_model(g_model);
  if (std::string(argv[1]) == "--describe")
  {
    for (size_t i = 0; i < g_model.ports.size(); ++i)
      std::printf("PORT %zu %s provides=%d sem=%d\n", i, g_model.ports[i].name.c_str(), g_model.ports[i].provides ? 1 : 0, g_model.ports[i].sem);
    for (size_t i = 0; i < g_model.events.size(); ++i)
      std::printf("EVENT %zu port=%d %s in=%d dirs=%s valued=%d\n", i, g_model.events[i].port, g_model.events[i].name.c_str(),
                  g_model.events[i].is_in ? 1 : 0, g_model.events[i].dirs.empty() ? "-" : g_model.events[i].dirs.c_str(), g_model.events[i].valued ? 1 : 0);
    for (auto& kv : g_model.static_facts) std::printf("STATIC %s %d\n", kv.first.c_str(), kv.second ? 1 : 0);
    std::printf("MC port=%d claim=%d release=%d grant=%lld\n", g_model.mc_port, g_model.claim_ev, g_model.release_ev, g_model.grant_value);
    return 0;
  }
  std::ifstream in(argv[1]);
  if (!in)
  {
    std::fprintf(stderr, "cannot open %s\n", argv[1]);
    return 2;
  }
  const int timeout_s = argc > 2 ? std::atoi(argv[2]) : 60;
  std::vector<std::vector<std::string>> runs;
  std::string line;
  while (std::getline(in, line))
  {
    if (line.rfind("RUN", 0) == 0) runs.emplace_back();
    if (!runs.empty()) runs.back().push_back(line);
  }
  signal(SIGPIPE, SIG_IGN);
  for (auto& lines : runs)
  {
    int fds[2];
    if (pipe(fds) != 0) return 2;
    std::fflush(stdout);
    pid_t pid = fork();
    if (pid < 0) return 2;
    if (pid == 0)
    {
      close(fds[0]);
      dup2(fds[1], 2);
      alarm(static_cast<unsigned>(timeout_s));
      if (!parse_run(lines, g_run))
      {
        const char* msg = "#HARNESS bad tape\n";
        (void)!write(fds[1], msg, std::strlen(msg));
        _exit(SIMX_HARNESS);
      }
      execute_run(fds[1]);
      _exit(SIMX_HARNESS);
    }
    close(fds[1]);
    std::string out;
    char buf[65536];
    for (;;)
    {
      ssize_t n = read(fds[0], buf, sizeof buf);
      if (n > 0) out.append(buf, static_cast<size_t>(n));
      else if (n == 0) break;
      else if (errno != EINTR) break;
    }
    close(fds[0]);
    int st = 0;
    waitpid(pid, &st, 0);
    std::string id = "?";
    {
      std::istringstream is(lines[0]);
      std::string kw;
      is >> kw >> id;
    }
    if (WIFEXITED(st)) std::printf("=== RUN %s exit=%d\n", id.c_str(), WEXITSTATUS(st));
    else std::printf("=== RUN %s signal=%d\n", id.c_str(), WIFSIGNALED(st) ? WTERMSIG(st) : -1);
    std::fwrite(out.data(), 1, out.size(), stdout);
    if (!out.empty() && out.back() != '\n') std::fputc('\n', stdout);
    std::printf("=== END %s\n", id.c_str());
  }
  std::fflush(stdout);
  return 0;
}
}  // namespace sim

int main(int argc, char** argv) { return sim::harness_main(argc, argv); }
