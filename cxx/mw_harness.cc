// C11 (b): the generated MutexWrapped<T> helper used directly by 2-3 baton-scheduled threads (TSan build).
// HARNESS code - not part of dznpy.  Compile with -DMW_HEADER="\"<prefix>_MutexWrapped.hh\"" -DMW_NS=<namespace>.
#include MW_HEADER
#include "kernel.h"

#include <cstdio>
#include <cstdlib>
#include <cstring>
#include <fstream>
#include <sstream>
#include <stdexcept>
#include <string>
#include <vector>

#include <signal.h>
#include <sys/wait.h>
#include <unistd.h>

extern "C" void __sanitizer_set_death_callback(void (*)(void)) __attribute__((weak));

namespace
{
struct Data
{
  long value = 0;
  long writes = 0;
};
using Wrapped = MW_NS::MutexWrapped<Data>;

enum { CTR_OCC = 0, CTR_INCR = 1, CTR_MAXOCC = 2, CTR_OCC2 = 3, CTR_INCR2 = 4, CTR_MAXOCC2 = 5 };

struct Section
{
  int mode, incr, yields;
};
struct TaskSpec
{
  std::string name;
  std::vector<Section> sections;
};
struct Run
{
  std::string id;
  sim_config sc{};
  std::vector<int> explicit_sched;
  std::vector<TaskSpec> tasks;
};
Run g_run;
Wrapped* g_mw = nullptr;
Wrapped* g_mw2 = nullptr;   // a second, independent instance of the same MutexWrapped<T>

void rec(const std::string& s) { sim_rec(s.c_str()); }

void enter()
{
  const long occ = sim_ctr_add(CTR_OCC, 1);
  if (occ > sim_ctr_get(CTR_MAXOCC)) sim_ctr_add(CTR_MAXOCC, occ - sim_ctr_get(CTR_MAXOCC));
  if (occ > 1) rec("occupancy n=" + std::to_string(occ));
}
void leave() { sim_ctr_add(CTR_OCC, -1); }
void enter2()
{
  const long occ = sim_ctr_add(CTR_OCC2, 1);
  if (occ > sim_ctr_get(CTR_MAXOCC2)) sim_ctr_add(CTR_MAXOCC2, occ - sim_ctr_get(CTR_MAXOCC2));
  if (occ > 1) rec("occupancy2 n=" + std::to_string(occ));
}
void leave2() { sim_ctr_add(CTR_OCC2, -1); }

template <class P>
void work2(P& lad, const Section& s)
{
  for (int i = 0; i < s.incr; ++i)
  {
    const long v = lad->value;
    for (int y = 0; y < s.yields; ++y) sim_yield(YK_USER);
    lad->value = v + 1;
    lad->writes += 1;
    sim_ctr_add(CTR_INCR2, 1);
  }
}

template <class P>
void work(P& lad, const Section& s)
{
  for (int i = 0; i < s.incr; ++i)
  {
    const long v = lad->value;
    for (int y = 0; y < s.yields; ++y) sim_yield(YK_USER);
    lad->value = v + 1;
    lad->writes += 1;
    sim_ctr_add(CTR_INCR, 1);
  }
}

void task_body(void* arg)
{
  const TaskSpec& t = *static_cast<const TaskSpec*>(arg);
  for (const Section& s : t.sections)
  {
    sim_yield(YK_OP);
    if (s.mode == 0)
    {  // explicit reset
      auto lad = (*g_mw)();
      enter();
      work(lad, s);
      leave();
      lad.reset();
      rec("section mode=reset");
    }
    else if (s.mode == 1)
    {  // scope exit
      {
        auto lad = (*g_mw)();
        enter();
        work(lad, s);
        leave();
      }
      rec("section mode=scope");
    }
    else if (s.mode == 2)
    {  // the unique_ptr is moved; the lock lives until the new owner dies
      {
        auto lad = (*g_mw)();
        enter();
        auto moved = std::move(lad);
        work(moved, s);
        leave();
      }
      rec("section mode=moved");
    }
    else if (s.mode == 4)
    {  // hold the first instance while working on the second one (fixed order: no lock-order inversion)
      {
        auto a = (*g_mw)();
        enter();
        work(a, s);
        {
          auto b = (*g_mw2)();
          enter2();
          work2(b, s);
          leave2();
        }
        leave();
      }
      rec("section mode=nested");
    }
    else if (s.mode == 6)
    {  // the scope is left by an exception: the lock must be released during unwinding
      try
      {
        auto lad = (*g_mw)();
        enter();
        work(lad, s);
        leave();
        throw std::runtime_error("simulated failure inside the critical section");
      }
      catch (const std::runtime_error&)
      {
      }
      rec("section mode=exception");
    }
    else if (s.mode == 5)
    {  // the second instance alone
      {
        auto b = (*g_mw2)();
        enter2();
        work2(b, s);
        leave2();
      }
      rec("section mode=second");
    }
    else
    {  // reset, then immediately take the lock again from the same thread
      auto lad = (*g_mw)();
      enter();
      work(lad, s);
      leave();
      lad.reset();
      auto again = (*g_mw)();
      enter();
      work(again, s);
      leave();
      rec("section mode=reacquire");
    }
  }
  rec("task_done");
}

void death_callback() { sim_flush(99); }

void execute_run(int out_fd)
{
  Run& R = g_run;
  R.sc.out_fd = out_fd;
  R.sc.explicit_sched = R.explicit_sched.empty() ? nullptr : R.explicit_sched.data();
  R.sc.n_explicit = static_cast<int>(R.explicit_sched.size());
  if (__sanitizer_set_death_callback) __sanitizer_set_death_callback(death_callback);
  sim_start(&R.sc);
  g_mw = new Wrapped;
  g_mw2 = new Wrapped;
  for (auto& t : R.tasks) sim_spawn(t.name.c_str(), &task_body, &t, 0, 0);
  sim_join_all();
  sim_join_finished();
  long value, writes, value2, writes2;
  {
    auto lad = (*g_mw)();
    value = lad->value;
    writes = lad->writes;
  }
  {
    auto lad = (*g_mw2)();
    value2 = lad->value;
    writes2 = lad->writes;
  }
  rec("final value=" + std::to_string(value) + " writes=" + std::to_string(writes) + " increments=" + std::to_string(sim_ctr_get(CTR_INCR)) +
      " max_occupancy=" + std::to_string(sim_ctr_get(CTR_MAXOCC)) + " value2=" + std::to_string(value2) + " writes2=" + std::to_string(writes2) +
      " increments2=" + std::to_string(sim_ctr_get(CTR_INCR2)) + " max_occupancy2=" + std::to_string(sim_ctr_get(CTR_MAXOCC2)));
  delete g_mw;
  delete g_mw2;
  sim_finish(SIMX_OK);
}

bool parse_run(const std::vector<std::string>& lines, Run& R)
{
  R = Run();
  R.sc.step_budget = 100000;
  R.sc.trace_decisions = 1;
  for (const std::string& line : lines)
  {
    std::istringstream is(line);
    std::string kw;
    is >> kw;
    if (kw == "RUN") is >> R.id;
    else if (kw == "CFG")
    {
      long long seed;
      is >> seed >> R.sc.policy >> R.sc.p1 >> R.sc.p2 >> R.sc.stall_from >> R.sc.stall_len >> R.sc.step_budget >> R.sc.trace_decisions;
      R.sc.seed = static_cast<unsigned long long>(seed);
    }
    else if (kw == "X")
    {
      int v;
      while (is >> v) R.explicit_sched.push_back(v);
      if (R.explicit_sched.empty()) R.explicit_sched.push_back(-1);
    }
    else if (kw == "TASK")
    {
      TaskSpec t;
      is >> t.name;
      R.tasks.push_back(t);
    }
    else if (kw == "S")
    {
      if (R.tasks.empty()) return false;
      Section s{};
      is >> s.mode >> s.incr >> s.yields;
      R.tasks.back().sections.push_back(s);
    }
    else if (kw == "END" || kw.empty() || kw[0] == '#') {}
    else return false;
  }
  return true;
}
}  // namespace

int main(int argc, char** argv)
{
  if (argc < 2) return 2;
  std::ifstream in(argv[1]);
  if (!in) return 2;
  const int timeout_s = argc > 2 ? std::atoi(argv[2]) : 60;
  std::vector<std::vector<std::string>> runs;
  std::string line;
  while (std::getline(in, line))
  {
    if (line.rfind("RUN", 0) == 0) runs.emplace_back();
    if (!runs.empty()) runs.back().push_back(line);
  }
  signal(SIGPIPE, SIG_IGN);
  for (auto& lines : runs)
  {
    int fds[2];
    if (pipe(fds) != 0) return 2;
    std::fflush(stdout);
    pid_t pid = fork();
    if (pid < 0) return 2;
    if (pid == 0)
    {
      close(fds[0]);
      dup2(fds[1], 2);
      alarm(static_cast<unsigned>(timeout_s));
      if (!parse_run(lines, g_run))
      {
        const char* msg = "#HARNESS bad tape\n";
        (void)!write(fds[1], msg, std::strlen(msg));
        _exit(SIMX_HARNESS);
      }
      execute_run(fds[1]);
      _exit(SIMX_HARNESS);
    }
    close(fds[1]);
    std::string out;
    char buf[65536];
    for (;;)
    {
      ssize_t n = read(fds[0], buf, sizeof buf);
      if (n > 0) out.append(buf, static_cast<size_t>(n));
      else if (n == 0) break;
      else if (errno != EINTR) break;
    }
    close(fds[0]);
    int st = 0;
    waitpid(pid, &st, 0);
    std::string id = "?";
    {
      std::istringstream is(lines[0]);
      std::string kw;
      is >> kw >> id;
    }
    if (WIFEXITED(st)) std::printf("=== RUN %s exit=%d\n", id.c_str(), WEXITSTATUS(st));
    else std::printf("=== RUN %s signal=%d\n", id.c_str(), WIFSIGNALED(st) ? WTERMSIG(st) : -1);
    std::fwrite(out.data(), 1, out.size(), stdout);
    if (!out.empty() && out.back() != '\n') std::fputc('\n', stdout);
    std::printf("=== END %s\n", id.c_str());
  }
  std::fflush(stdout);
  return 0;
}
