// Generic simulation harness for a dznpy-generated advanced shell (World A).
// SIMULATED/HARNESS code - not part of dznpy.  Everything model-specific is registered by the
// generated glue (register_model) through the templates below.
//
// Cross-task state discipline (ThreadSanitizer cannot see the baton):
//   * immutable after setup (model tables, run tape)            -> plain C++ objects
//   * per task                                                  -> locals
//   * mutable and shared between tasks (counters, history)      -> kernel memory only (sim_ctr_*, sim_rec)
#ifndef SIM_HARNESS_HH
#define SIM_HARNESS_HH

#include "kernel.h"
#include "simtypes.hh"

#include <dzn/locator.hh>
#include <dzn/meta.hh>
#include <dzn/pump.hh>
#include <dzn/runtime.hh>

#include <functional>
#include <string>
#include <tuple>
#include <type_traits>
#include <utility>
#include <vector>

namespace sim
{
// ----------------------------------------------------------------------------- counters (kernel side)
enum
{
  CTR_CID = 0,
  CTR_HID,
  CTR_PUMP_IDS,
  CTR_RUNTIME_IDS,
  CTR_TRACKED_COPIES,   // == CTR_TRACKED_COPIES_IDX (4)
  CTR_CLAIMED,         // arbiter state of the scripted component
  CTR_PHASE,           // 0 = before shell ctor, 1 = during shell ctor, 2 = after
  CTR_EXEC_DEPTH_BASE = 16,  // + task id: >0 while the task (a pump worker) runs a closure
  CTR_EXEC_PUMP_BASE = 48,   // + task id: pump id whose closure is running
  CTR_WAITS_BASE = 80,       // + task id: number of dzn::shell parkings
  CTR_POSTS_BASE = 112,      // + task id: number of pump posts
  CTR_PUMP_POSTS_BASE = 144, // + pump id: posts received
  CTR_ORD_BASE = 256         // + side*256 + event index: handler invocation ordinal
};

static_assert(static_cast<int>(CTR_TRACKED_COPIES) == static_cast<int>(CTR_TRACKED_COPIES_IDX), "counter index shared with simtypes.hh");

// ----------------------------------------------------------------------------- token carrying types
template <class T, class = void>
struct Codec;
template <>
struct Codec<int>
{
  static int make(long long t) { return static_cast<int>(t); }
  static long long read(const int& v) { return v; }
};
template <>
struct Codec<long>
{
  static long make(long long t) { return static_cast<long>(t); }
  static long long read(const long& v) { return v; }
};
template <>
struct Codec<long long>
{
  static long long make(long long t) { return t; }
  static long long read(const long long& v) { return v; }
};
template <>
struct Codec<unsigned>
{
  static unsigned make(long long t) { return static_cast<unsigned>(t); }
  static long long read(const unsigned& v) { return v; }
};
template <>
struct Codec<double>
{
  static double make(long long t) { return static_cast<double>(t); }
  static long long read(const double& v) { return static_cast<long long>(v); }
};
template <>
struct Codec<bool>
{
  static bool make(long long t) { return (t & 1) != 0; }
  static long long read(const bool& v) { return v ? 1 : 0; }
};
template <>
struct Codec<std::string>
{
  static std::string make(long long t) { return "s" + std::to_string(t); }
  static long long read(const std::string& v)
  {
    if (v.size() < 2 || v[0] != 's') return -5;
    long long r = 0;
    bool neg = false;
    size_t i = 1;
    if (v[i] == '-') { neg = true; ++i; }
    for (; i < v.size(); ++i)
    {
      if (v[i] < '0' || v[i] > '9') return -5;
      r = r * 10 + (v[i] - '0');
    }
    return neg ? -r : r;
  }
};
template <>
struct Codec<Tracked>
{
  static Tracked make(long long t) { return Tracked(t); }
  static long long read(const Tracked& v) { return v.tok(); }
};
template <>
struct Codec<BoxA>
{
  static BoxA make(long long t) { return BoxA(t); }
  static long long read(const BoxA& v) { return v.v; }
};
template <>
struct Codec<BoxB>
{
  static BoxB make(long long t) { return BoxB(t); }
  static long long read(const BoxB& v) { return v.v; }
};
template <class E>
struct Codec<E, std::enable_if_t<std::is_enum_v<E>>>
{
  static E make(long long t) { return static_cast<E>(t); }
  static long long read(const E& v) { return static_cast<long long>(v); }
};

// data types spelled as raw pointers (`extern Frame $const sim::Tracked*$`): the pointee is allocated by the caller and
// deliberately never freed (a real peer would keep it alive as long as anybody may look at it)
template <class P>
struct Codec<P*, void>
{
  using V = std::remove_const_t<P>;
  static P* make(long long t) { return new V(Codec<V>::make(t)); }
  static long long read(P* const& v) { return v ? Codec<V>::read(*v) : -6; }
};

// ----------------------------------------------------------------------------- contexts
struct EvCtx
{
  int ev;      // event index in the model table
  int side;    // 0 = outer (user side of the shell), 1 = inner (wrapped component)
  int client;  // multi-client: index of the registered client on the outer side, else -1
  int gen = 0; // how many times the user has re-bound this handler (0 = the binding made before FinalConstruct)
};

struct HandlerPlan
{
  long long hid;
  long long reply;
  std::vector<int> follow;
};

// implemented in harness.cc (non-template part)
long long call_begin(const EvCtx&, const std::vector<long long>& in_tokens);
void call_end(const EvCtx&, long long cid, bool has_reply, long long reply, const std::vector<long long>& out_tokens);
HandlerPlan handler_enter(const EvCtx&, const std::vector<long long>& in_tokens, size_t n_out, std::vector<long long>& out_tokens);
void handler_follow(const EvCtx&, const HandlerPlan&);
void handler_exit(const EvCtx&, const HandlerPlan&);
void scrub_stack();

template <class A>
inline constexpr bool is_out_ref = std::is_lvalue_reference_v<A> && !std::is_const_v<std::remove_reference_t<A>>;

template <class A>
std::decay_t<A> make_arg(char dir)
{
  using T = std::decay_t<A>;
  if (dir == 'o') return Codec<T>::make(-7);
  return Codec<T>::make(sim_token());
}

template <class A>
void collect_in(std::vector<long long>& in, const std::decay_t<A>& v, char dir)
{
  if (dir == 'i' || dir == 'b') in.push_back(Codec<std::decay_t<A>>::read(v));
}

template <class A>
void collect_out(std::vector<long long>& out, const std::decay_t<A>& v, char dir)
{
  if (dir == 'o' || dir == 'b') out.push_back(Codec<std::decay_t<A>>::read(v));
}

template <class A, class V>
void assign_out(V& a, char dir, const std::vector<long long>& out, size_t& k)
{
  if (dir == 'o' || dir == 'b')
  {
    if constexpr (is_out_ref<A>) a = Codec<std::decay_t<A>>::make(out[k]);
    ++k;
  }
}

// result of a call as seen by the driver (claim/release logic needs the reply)
struct CallResult
{
  bool has_reply = false;
  long long reply = 0;
};

template <class R, class... A, size_t... I>
CallResult do_call_impl(const std::function<R(A...)>& f, const EvCtx& cc, const std::string& dirs, std::index_sequence<I...>)
{
  std::tuple<std::decay_t<A>...> vals{make_arg<A>(dirs[I])...};
  std::vector<long long> in, out;
  (collect_in<A>(in, std::get<I>(vals), dirs[I]), ...);
  const long long cid = call_begin(cc, in);
  CallResult res;
  if constexpr (std::is_void_v<R>)
  {
    f(std::get<I>(vals)...);
  }
  else
  {
    R r = f(std::get<I>(vals)...);
    res.has_reply = true;
    res.reply = Codec<R>::read(r);
  }
  (collect_out<A>(out, std::get<I>(vals), dirs[I]), ...);
  call_end(cc, cid, res.has_reply, res.reply, out);
  return res;
}

template <class R, class... A>
CallResult do_call(const std::function<R(A...)>& f, const EvCtx& cc, const std::string& dirs)
{
  return do_call_impl(f, cc, dirs, std::index_sequence_for<A...>{});
}

template <class R, class... A>
std::function<R(A...)> make_handler(const std::function<R(A...)>*, EvCtx ctx, std::string dirs)
{
  return [ctx, dirs](A... a) -> R {
    std::vector<long long> in, out;
    size_t i = 0, nout = 0;
    ((collect_in<A>(in, a, dirs[i]), ++i), ...);
    for (char c : dirs)
      if (c == 'o' || c == 'b') ++nout;
    HandlerPlan plan = handler_enter(ctx, in, nout, out);
    i = 0;
    size_t k = 0;
    ((assign_out<A>(a, dirs[i], out, k), ++i), ...);
    handler_follow(ctx, plan);
    handler_exit(ctx, plan);
    if constexpr (!std::is_void_v<R>) return Codec<R>::make(plan.reply);
  };
}

// ----------------------------------------------------------------------------- model tables
struct EventDesc
{
  int port;
  std::string name;
  bool is_in;        // event direction 'in' (else 'out')
  std::string dirs;  // per formal: i / o / b(inout)
  bool valued;
  std::function<CallResult(void* port_obj, const EvCtx&)> call;
  std::function<void(void* port_obj, const EvCtx&)> bind;
  std::function<void(void* port_obj)> unbind;
  std::function<bool(void* port_obj)> bound;
};

struct PortDesc
{
  std::string name;
  bool provides;
  int sem;  // 0 = STS, 1 = MTS, 2 = MTS multi-client, 3 = injected (not exposed)
  std::function<void*(void* shell, const std::string& client)> outer;  // exposed ports
  std::function<void*(void* comp)> inner;
  std::function<void*()> make_injected;                                // injected ports: create the user's instance
  std::function<void(dzn::locator&, void*)> put_injected;
  std::function<const void*(void* port_obj)> meta_addr;
  std::function<void*()> make_user;                                    // exposed ports: a user-side port object
  std::function<void(void* shell, const std::string& client, void* user_port)> connect;  // via <ns>::ConnectPorts
};

struct ShellOps
{
  std::function<void*(const dzn::locator&, const std::string& name)> construct;  // may throw
  std::function<void(void*)> destroy;
  std::function<void(void*, const dzn::meta*, bool use_default)> final_construct;
  std::function<dzn::locator*(void*)> locator;  // nullptr when the shell has no Locator() accessor
  std::function<std::vector<std::string>(void*, int port)> client_ids;
  std::function<const dzn::meta*(void* comp)> comp_parent;
  std::function<std::string(void* comp)> comp_name;
  std::function<void(const dzn::locator&)> companion;   // constructs and destroys the companion shell (another generated shell in this program), or empty
};

struct Model
{
  std::vector<PortDesc> ports;
  std::vector<EventDesc> events;
  ShellOps shell;
  int mc_port = -1, claim_ev = -1, release_ev = -1;
  bool companion_creates = false;   // facilities origin of the companion shell
  long long grant_value = 0;
  std::vector<long long> deny_values;
  std::vector<std::pair<std::string, bool>> static_facts;  // compile-time facts reported by --describe

  // One instantiation per distinct event signature: `slot` is a plain function pointer obtained from a
  // capture-less lambda in the glue, so no per-event closure types reach the heavy templates.
  template <class R, class... A>
  void add_event(int port, const char* name, bool is_in, const char* dirs, std::function<R(A...)>* (*slot)(void*))
  {
    EventDesc e;
    e.port = port;
    e.name = name;
    e.is_in = is_in;
    e.dirs = dirs;
    e.valued = !std::is_void_v<R>;
    const std::string d = dirs;
    e.call = [slot, d](void* p, const EvCtx& cc) { return do_call(*slot(p), cc, d); };
    e.bind = [slot, d](void* p, const EvCtx& hc) { *slot(p) = make_handler(slot(p), hc, d); };
    e.unbind = [slot](void* p) { *slot(p) = nullptr; };
    e.bound = [slot](void* p) { return static_cast<bool>(*slot(p)); };
    events.push_back(std::move(e));
  }
};

// storage for the shell object (filled with a non-zero pattern)
void* garbage_block(size_t n);
void release_block(void* p);

// hooks called by the mock Dezyne-generated component
void component_constructed(void* comp, const dzn::locator& loc);

// log sink used for the shell's ILog argument
void log_sink(char level, const std::string& msg);
// fault kind: the user's ILog object does not outlive the constructor call (the shell keeps what it needs by value)
bool log_object_is_temporary();

// implemented by the generated glue
void register_model(Model& m);

int harness_main(int argc, char** argv);
}  // namespace sim

#endif
