/* See kernel.h.  Compiled without sanitizers; no libc mem/str/printf calls on purpose. */
#define _GNU_SOURCE
#include <pthread.h>
#include <unistd.h>
#include <errno.h>
#include <stdint.h>
#include <time.h>
#include <sys/syscall.h>
#include <linux/futex.h>
#include "kernel.h"

#define MAX_TASKS 24
#define MAX_FLAGS 8192
#define MAX_SEMS 64
#define HIST_CAP (8 << 20)
#define DEC_CAP 400000

enum { ST_RUNNABLE = 0, ST_BLOCKED = 1, ST_DONE = 2 };
enum { WK_NONE = 0, WK_FLAG, WK_SEM, WK_MUTEX, WK_JOIN };

typedef struct {
    int used, id;
    char name[32];
    int daemon, stallable;
    int state, wait_kind, wait_yk;
    long wait_obj;
    int go;
    pthread_t th;
    int has_thread, joined;
    sim_task_fn fn;
    void *arg;
    long long prio;
} task_t;

static task_t tasks[MAX_TASKS];
static int n_tasks;
static int g_active;
static __thread int tl_self = -1;
static int g_current = -1;

static sim_config cfg;
static uint64_t rng_state;
static long g_steps, g_decisions, g_real_choices, g_switches;
static long g_lock_timeouts;   /* timed lock attempts that the simulator let run into their deadline */
static long long g_token = 1000;
static long g_seq;
static uint64_t g_ilhash = 1469598103934665603ULL;
static long g_contended;
static long long g_low_prio = -1;
static long pct_points[8];
static int rr_left;

static unsigned char flags_[MAX_FLAGS];
static int n_flags;
static int sems_[MAX_SEMS];
static int n_sems;

static char hist[HIST_CAP];
static long hist_len;
static short dec[DEC_CAP];
static long n_dec;

/* ------------------------------------------------------------------ utils */
static uint64_t splitmix(void) {
    uint64_t z = (rng_state += 0x9E3779B97F4A7C15ULL);
    z = (z ^ (z >> 30)) * 0xBF58476D1CE4E5B9ULL;
    z = (z ^ (z >> 27)) * 0x94D049BB133111EBULL;
    return z ^ (z >> 31);
}
static uint64_t rnd_below(uint64_t n) { return n ? splitmix() % n : 0; }

static void h_putc(char c) {
    if (hist_len < HIST_CAP - 1) hist[hist_len++] = c;
}
static void h_puts(const char *s) {
    while (*s) h_putc(*s++);
}
static void h_putn(long long v) {
    char buf[24];
    int i = 0;
    unsigned long long u;
    if (v < 0) { h_putc('-'); u = (unsigned long long)(-(v + 1)) + 1ULL; } else u = (unsigned long long)v;
    do { buf[i++] = (char)('0' + (u % 10)); u /= 10; } while (u);
    while (i) h_putc(buf[--i]);
}
static void h_puthex(uint64_t v) {
    int i;
    for (i = 60; i >= 0; i -= 4) h_putc("0123456789abcdef"[(v >> i) & 15]);
}

static void futex_wait(int *addr, int val) { syscall(SYS_futex, addr, FUTEX_WAIT, val, 0, 0, 0); }
static void futex_wake(int *addr) { syscall(SYS_futex, addr, FUTEX_WAKE, 1, 0, 0, 0); }

static void wait_go(task_t *t) {
    while (__atomic_load_n(&t->go, __ATOMIC_ACQUIRE) == 0) futex_wait(&t->go, 0);
    __atomic_store_n(&t->go, 0, __ATOMIC_RELAXED);
}
static void give_go(task_t *t) {
    __atomic_store_n(&t->go, 1, __ATOMIC_RELEASE);
    futex_wake(&t->go);
}

/* ------------------------------------------------------------------ finish */
static int g_flushed;
void sim_flush(int code) {
    long off = 0, i;
    if (g_flushed) return;
    g_flushed = 1;
    h_puts("#END code="); h_putn(code);
    h_puts(" steps="); h_putn(g_steps);
    h_puts(" decisions="); h_putn(g_decisions);
    h_puts(" choices="); h_putn(g_real_choices);
    h_puts(" switches="); h_putn(g_switches);
    h_puts(" contended="); h_putn(g_contended);
    h_puts(" lock_timeouts="); h_putn(g_lock_timeouts);
    h_puts(" ilhash="); h_puthex(g_ilhash);
    h_putc('\n');
    if (cfg.trace_decisions) {
        h_puts("#SCHED");
        for (i = 0; i < n_dec; i++) { h_putc(' '); h_putn(dec[i]); }
        h_putc('\n');
    }
    while (off < hist_len) {
        long r = write(cfg.out_fd, hist + off, (size_t)(hist_len - off));
        if (r <= 0) { if (errno == EINTR) continue; break; }
        off += r;
    }
}
static void flush_and_exit(int code) {
    sim_flush(code);
    _exit(hist_len >= HIST_CAP - 1 ? SIMX_HARNESS : code);
}

void sim_finish(int code) { flush_and_exit(code); }

static void deadlock(const char *why) {
    int i;
    h_puts("#DEADLOCK "); h_puts(why); h_putc('\n');
    for (i = 0; i < n_tasks; i++) {
        task_t *t = &tasks[i];
        if (t->state == ST_DONE) continue;
        h_puts("#TASK "); h_puts(t->name);
        h_puts(t->state == ST_BLOCKED ? " blocked kind=" : " runnable kind=");
        h_putn(t->wait_kind); h_puts(" obj="); h_putn(t->wait_kind == WK_MUTEX ? 1 : t->wait_obj);
        h_puts(" daemon="); h_putn(t->daemon); h_putc('\n');
    }
    flush_and_exit(SIMX_DEADLOCK);
}

/* ------------------------------------------------------------------ scheduling */
static int default_pick(const int *r, int n) {
    int i;
    for (i = 0; i < n; i++) if (r[i] == g_current) return g_current;
    return r[0];
}

static int pick(int kind) {
    int r[MAX_TASKS], n = 0, all[MAX_TASKS], na = 0, i, choice;
    int stalled = (g_steps >= cfg.stall_from && g_steps < (long)cfg.stall_from + cfg.stall_len);
    for (i = 0; i < n_tasks; i++) if (tasks[i].state == ST_RUNNABLE) {
        all[na++] = i;
        if (!(stalled && tasks[i].stallable)) r[n++] = i;
    }
    if (na == 0) return -1;
    if (n == 0) { for (i = 0; i < na; i++) r[i] = all[i]; n = na; }

    long d = g_decisions++;
    choice = -1;
    if (cfg.explicit_sched) {
        if (d < cfg.n_explicit && cfg.explicit_sched[d] >= 0) {
            for (i = 0; i < na; i++) if (all[i] == cfg.explicit_sched[d]) choice = all[i];
        }
        if (choice < 0) choice = default_pick(r, n);
    } else if (n == 1) {
        choice = r[0];
    } else {
        switch (cfg.policy) {
        case POL_UNIFORM: choice = r[rnd_below((uint64_t)n)]; break;
        case POL_STICKY: {
            int cur = -1;
            for (i = 0; i < n; i++) if (r[i] == g_current) cur = r[i];
            if (cur >= 0 && (int)rnd_below(100) < cfg.p1) choice = cur; else choice = r[rnd_below((uint64_t)n)];
            break;
        }
        case POL_PCT: {
            for (i = 0; i < cfg.p1 && i < 8; i++) if (pct_points[i] == g_steps && g_current >= 0) tasks[g_current].prio = g_low_prio--;
            choice = r[0];
            for (i = 1; i < n; i++) if (tasks[r[i]].prio > tasks[choice].prio) choice = r[i];
            break;
        }
        case POL_RR: {
            int cur = -1, j;
            for (i = 0; i < n; i++) if (r[i] == g_current) cur = i;
            if (cur >= 0 && rr_left > 0) { rr_left--; choice = r[cur]; }
            else {
                choice = r[0];
                for (j = 0; j < n; j++) if (r[j] > g_current) { choice = r[j]; break; }
                rr_left = cfg.p1 > 0 ? (int)rnd_below((uint64_t)cfg.p1) : 0;
            }
            break;
        }
        default: choice = default_pick(r, n); break;
        }
    }
    if (n_dec < DEC_CAP) dec[n_dec++] = (short)choice;
    if (na > 1) {
        g_real_choices++;
        g_ilhash = (g_ilhash ^ (uint64_t)(choice * 31 + kind + 1)) * 1099511628211ULL;
    }
    return choice;
}

static void switch_to(int next, int wait_self) {
    task_t *self = &tasks[tl_self];
    if (next == tl_self) return;
    g_switches++;
    g_current = next;
    give_go(&tasks[next]);
    if (wait_self) wait_go(self);
}

static void step_check(void) {
    g_steps++;
    if (g_steps > cfg.step_budget) {
        h_puts("#BUDGET exceeded\n");
        deadlock("budget");
    }
}

void sim_yield(int kind) {
    int next;
    if (!g_active || tl_self < 0) return;
    step_check();
    next = pick(kind);
    switch_to(next, 1);
}

static void block_on(int wk, long obj, int yk) {
    task_t *self = &tasks[tl_self];
    int next;
    step_check();
    self->state = ST_BLOCKED; self->wait_kind = wk; self->wait_obj = obj; self->wait_yk = yk;
    next = pick(yk);
    if (next < 0) deadlock("no runnable task");
    switch_to(next, 1);
    self->wait_kind = WK_NONE;
}

static void wake_waiters(int wk, long obj, int only_one) {
    int i;
    for (i = 0; i < n_tasks; i++) {
        task_t *t = &tasks[i];
        if (t->state == ST_BLOCKED && t->wait_kind == wk && t->wait_obj == obj) {
            t->state = ST_RUNNABLE;
            if (only_one) return;
        }
    }
}

/* ------------------------------------------------------------------ API */
int sim_active(void) { return g_active && tl_self >= 0; }
int sim_self(void) { return tl_self; }
const char *sim_task_name(int id) { return (id >= 0 && id < n_tasks) ? tasks[id].name : "?"; }
long sim_steps(void) { return g_steps; }
long long sim_token(void) { return g_token++; }

static void set_name(task_t *t, const char *name) {
    int i = 0;
    while (name[i] && i < 31) { t->name[i] = name[i]; i++; }
    t->name[i] = 0;
}

void sim_start(const sim_config *c) {
    task_t *t = &tasks[0];
    int i;
    cfg = *c;
    rng_state = c->seed;
    for (i = 0; i < 8; i++) pct_points[i] = (long)rnd_below((uint64_t)(cfg.p2 > 0 ? cfg.p2 : 1));
    n_tasks = 1;
    t->used = 1; t->id = 0; set_name(t, "main"); t->state = ST_RUNNABLE; t->daemon = 1;
    t->prio = (long long)(splitmix() >> 2);
    tl_self = 0; g_current = 0; g_active = 1;
}

static void *trampoline(void *p) {
    task_t *t = (task_t *)p;
    int next;
    tl_self = t->id;
    wait_go(t);
    t->fn(t->arg);
    /* task exit */
    step_check();
    t->state = ST_DONE;
    wake_waiters(WK_JOIN, 0, 0);
    next = pick(YK_EXIT);
    if (next < 0) deadlock("no runnable task at exit");
    g_switches++;
    g_current = next;
    give_go(&tasks[next]);
    return 0;
}

int sim_spawn(const char *name, sim_task_fn fn, void *arg, int daemon, int stallable) {
    task_t *t;
    pthread_attr_t at;
    if (n_tasks >= MAX_TASKS) { h_puts("#HARNESS too many tasks\n"); flush_and_exit(SIMX_HARNESS); }
    t = &tasks[n_tasks];
    t->used = 1; t->id = n_tasks; set_name(t, name);
    t->daemon = daemon; t->stallable = stallable; t->state = ST_RUNNABLE;
    t->fn = fn; t->arg = arg; t->go = 0; t->joined = 0;
    t->prio = (long long)(splitmix() >> 2);
    n_tasks++;
    pthread_attr_init(&at);
    pthread_attr_setstacksize(&at, 1 << 20);
    if (pthread_create(&t->th, &at, trampoline, t) != 0) { h_puts("#HARNESS pthread_create\n"); flush_and_exit(SIMX_HARNESS); }
    pthread_attr_destroy(&at);
    t->has_thread = 1;
    return t->id;
}

int sim_flag_new(void) {
    if (n_flags >= MAX_FLAGS) { h_puts("#HARNESS too many flags\n"); flush_and_exit(SIMX_HARNESS); }
    flags_[n_flags] = 0;
    return n_flags++;
}
void sim_flag_set(int f) { flags_[f] = 1; wake_waiters(WK_FLAG, f, 0); }
int sim_flag_isset(int f) { return flags_[f]; }
void sim_flag_clear(int f) { flags_[f] = 0; }
void sim_flag_wait(int f, int kind) {
    while (!flags_[f]) block_on(WK_FLAG, f, kind);
}

int sim_sem_new(int initial) {
    if (n_sems >= MAX_SEMS) { h_puts("#HARNESS too many sems\n"); flush_and_exit(SIMX_HARNESS); }
    sems_[n_sems] = initial;
    return n_sems++;
}
void sim_sem_post(int s) { sems_[s]++; wake_waiters(WK_SEM, s, 1); }
void sim_sem_wait(int s) {
    while (sems_[s] == 0) block_on(WK_SEM, s, YK_BLOCK);
    sems_[s]--;
}

void sim_join_all(void) {
    for (;;) {
        int i, pending = 0;
        for (i = 1; i < n_tasks; i++) if (!tasks[i].daemon && tasks[i].state != ST_DONE) pending = 1;
        if (!pending) return;
        block_on(WK_JOIN, 0, YK_BLOCK);
    }
}

void sim_task_join(int id) {
    if (id <= 0 || id >= n_tasks) return;
    while (tasks[id].state != ST_DONE) block_on(WK_JOIN, 0, YK_BLOCK);
    if (tasks[id].has_thread && !tasks[id].joined) {
        pthread_join(tasks[id].th, 0);
        tasks[id].joined = 1;
    }
}

void sim_join_finished(void) {
    int i;
    for (i = 1; i < n_tasks; i++) if (tasks[i].state == ST_DONE && tasks[i].has_thread && !tasks[i].joined) {
        pthread_join(tasks[i].th, 0);
        tasks[i].joined = 1;
    }
}

void sim_join_threads(void) {
    int i;
    for (;;) {
        int pending = 0;
        for (i = 1; i < n_tasks; i++) if (tasks[i].state != ST_DONE) pending = 1;
        if (!pending) break;
        block_on(WK_JOIN, 0, YK_BLOCK);
    }
    for (i = 1; i < n_tasks; i++) if (tasks[i].has_thread && !tasks[i].joined) {
        pthread_join(tasks[i].th, 0);
        tasks[i].joined = 1;
    }
}

static long ctrs[1024];
long sim_ctr_add(int idx, long delta) { return ctrs[idx & 1023] += delta; }
long sim_ctr_get(int idx) { return ctrs[idx & 1023]; }

void sim_rec(const char *line) {
    h_putn(g_seq++); h_putc(' ');
    h_puts(tl_self >= 0 ? tasks[tl_self].name : "?"); h_putc(' ');
    h_puts(line); h_putc('\n');
}
void sim_note(const char *line) { h_puts("# "); h_puts(line); h_putc('\n'); }

/* ------------------------------------------------------------------ cooperative pthread mutex */
int __real_pthread_mutex_lock(pthread_mutex_t *m);
int __real_pthread_mutex_trylock(pthread_mutex_t *m);
int __real_pthread_mutex_unlock(pthread_mutex_t *m);

int __wrap_pthread_mutex_lock(pthread_mutex_t *m) {
    if (!sim_active()) return __real_pthread_mutex_lock(m);
    sim_yield(YK_LOCK);
    for (;;) {
        int r = __real_pthread_mutex_trylock(m);
        if (r == 0) return 0;
        if (r != EBUSY) return r;
        g_contended++;
        block_on(WK_MUTEX, (long)m, YK_LOCK);
    }
}

int __wrap_pthread_mutex_trylock(pthread_mutex_t *m) { return __real_pthread_mutex_trylock(m); }

int __wrap_pthread_mutex_unlock(pthread_mutex_t *m) {
    int r = __real_pthread_mutex_unlock(m);
    if (sim_active()) {
        wake_waiters(WK_MUTEX, (long)m, 0);
        sim_yield(YK_UNLOCK);
    }
    return r;
}

/* Timed locks (std::timed_mutex::try_lock_for/until): there is no wall clock in the simulation, so WHETHER the deadline
 * passes while the caller waits for a contended lock is one more decision of the simulator (fault kind "the lock holder
 * is stalled for longer than any timeout").  The coin is a pure function of the run's seed and the logical step, so a
 * replay takes the same decision at the same point. */
int __real_pthread_mutex_timedlock(pthread_mutex_t *m, const struct timespec *abs);
int __real_pthread_mutex_clocklock(pthread_mutex_t *m, clockid_t clk, const struct timespec *abs);
static int timeout_coin(void) {
    uint64_t z = (uint64_t)cfg.seed ^ (0x9E3779B97F4A7C15ULL * (uint64_t)(g_steps + 1));
    z = (z ^ (z >> 30)) * 0xBF58476D1CE4E5B9ULL;
    z = (z ^ (z >> 27)) * 0x94D049BB133111EBULL;
    return (int)((z ^ (z >> 31)) & 1);
}

static int timed_acquire(pthread_mutex_t *m) {
    sim_yield(YK_LOCK);
    for (;;) {
        int r = __real_pthread_mutex_trylock(m);
        if (r == 0) return 0;
        if (r != EBUSY) return r;
        g_contended++;
        if (timeout_coin()) { g_lock_timeouts++; return ETIMEDOUT; }
        block_on(WK_MUTEX, (long)m, YK_LOCK);
    }
}

int __wrap_pthread_mutex_timedlock(pthread_mutex_t *m, const struct timespec *abs) {
    if (!sim_active()) return __real_pthread_mutex_timedlock(m, abs);
    return timed_acquire(m);
}

int __wrap_pthread_mutex_clocklock(pthread_mutex_t *m, clockid_t clk, const struct timespec *abs) {
    if (!sim_active()) return __real_pthread_mutex_clocklock(m, clk, abs);
    return timed_acquire(m);
}

/* std::shared_mutex / std::shared_timed_mutex are header-only wrappers around pthread_rwlock_*: same cooperative scheme,
 * so that generated code using them is scheduled by the baton instead of blocking the baton holder for real. */
int __real_pthread_rwlock_rdlock(pthread_rwlock_t *l);
int __real_pthread_rwlock_wrlock(pthread_rwlock_t *l);
int __real_pthread_rwlock_tryrdlock(pthread_rwlock_t *l);
int __real_pthread_rwlock_trywrlock(pthread_rwlock_t *l);
int __real_pthread_rwlock_unlock(pthread_rwlock_t *l);

static int rw_acquire(pthread_rwlock_t *l, int write) {
    sim_yield(YK_LOCK);
    for (;;) {
        int r = write ? __real_pthread_rwlock_trywrlock(l) : __real_pthread_rwlock_tryrdlock(l);
        if (r == 0) return 0;
        if (r != EBUSY) return r;   /* EDEADLK etc. are the program's business */
        g_contended++;
        block_on(WK_MUTEX, (long)l, YK_LOCK);
    }
}

int __wrap_pthread_rwlock_rdlock(pthread_rwlock_t *l) {
    if (!sim_active()) return __real_pthread_rwlock_rdlock(l);
    return rw_acquire(l, 0);
}

int __wrap_pthread_rwlock_wrlock(pthread_rwlock_t *l) {
    if (!sim_active()) return __real_pthread_rwlock_wrlock(l);
    return rw_acquire(l, 1);
}

int __wrap_pthread_rwlock_tryrdlock(pthread_rwlock_t *l) { return __real_pthread_rwlock_tryrdlock(l); }
int __wrap_pthread_rwlock_trywrlock(pthread_rwlock_t *l) { return __real_pthread_rwlock_trywrlock(l); }

int __wrap_pthread_rwlock_unlock(pthread_rwlock_t *l) {
    int r = __real_pthread_rwlock_unlock(l);
    if (sim_active()) {
        wake_waiters(WK_MUTEX, (long)l, 0);
        sim_yield(YK_UNLOCK);
    }
    return r;
}
