import sys
pid, wt, flavour = sys.argv[1], sys.argv[2], sys.argv[3]
prop = open(f'/tmp/prop-{pid}.txt').read()
hints = {
 'shape': 'Prefer a defect that only manifests for an unusual but valid INPUT SHAPE (a particular model or configuration shape - e.g. a specific mix of ports/events/formals/directions/names/namespaces/semantics) so that ordinary use and the shipped example models would not expose it at once.',
 'seq': 'Prefer a defect that needs something SPECIFIC TO MANIFEST: a particular interleaving of threads, a fault or failure at a particular point, a multi-step sequence of operations/history on shared objects, or two cooperating code sites that each look fine alone - not something ordinary single use would expose at once.',
}
print(f"""You are helping to evaluate a verification effort by planting ONE realistic defect into an open-source Python project.

The project is `dznpy` (Python helpers for the Dezyne modelling language: parse Dezyne JSON AST into dataclasses, resolve scopes, and generate C++ 'advanced shell' wrappers and support headers from templates). Your private scratch copy (a git worktree) is at `{wt}`. Work ONLY inside `{wt}` (and /tmp for scratch files); never touch /repo or /verif and do not read /verif.

Here is a semantic property that the project is supposed to satisfy:

-----
{prop}
-----

YOUR TASK: make a small, realistic source change under `{wt}/src/dznpy/` (the kind of mistake a maintainer could plausibly make in a refactoring or feature commit - not sabotage that is obviously absurd) that BREAKS this property, while:
  1. the package still imports and the existing test suite still passes: run `cd {wt} && /venv/bin/python -m pytest -ra -q -p no:cacheprovider --timeout=900 --continue-on-collection-errors` (181 tests pass on the unchanged tree; some test modules fail to collect both before and after - that is expected and fine; note this command imports the installed dznpy wheel, so ALSO run the collectable tests against your modified sources: `cd {wt} && PYTHONPATH={wt}/src:{wt}/test /venv/bin/python -m pytest -q -p no:cacheprovider test/unit_tests/adv_shell/test_port_selection.py test/unit_tests/test_scoping.py test/unit_tests/test_text_gen.py test/unit_tests/test_misc_utils.py` and make sure they pass);
  2. for valid inputs the generator still runs and (where the property is about generated C++) the generated C++ still compiles (g++ and clang++ are installed; there is NO Dezyne runtime or `dzn` tool in this sandbox, so if you want to compile or run generated C++ you must write a small stub of the bits of the Dezyne runtime API the generated code uses - dzn::pump, dzn::locator, dzn::runtime, dzn::meta, and a hand-written mock of the Dezyne-generated model header);
  3. {hints[flavour]}

DELIVERABLES - write these files into `{wt}/SEEDED/` (create the directory):
  * `patch.diff`  - output of `git -C {wt} diff -- src` (the source change only);
  * a DEMONSTRATION: a small self-contained program or test (`demo.py`, optionally with C++ files it compiles and runs) that exits non-zero / fails WITH your change applied and exits zero / passes WITHOUT it (i.e. on the clean worktree). It must be runnable as `cd {wt} && PYTHONPATH={wt}/src /venv/bin/python SEEDED/demo.py` and must not need network access. Use `sys.path.insert(0, '<worktree>/src')` semantics via PYTHONPATH so that it tests the worktree sources, not the installed wheel. Verify both directions yourself (use `git stash` / `git stash pop` or `git apply -R` to test the clean tree);
  * `meta.json` - JSON with keys: "property" ("{pid}"), "summary" (one paragraph: what you changed and why it violates the property), "needs" (what specific input shape / interleaving / fault / operation sequence is needed for the violation to manifest), "ran" (the commands you ran and their observed outcomes, including the test-suite runs).

Useful facts: Dezyne JSON ASTs are plain JSON (see `src/dznpy/json_ast.py` for the grammar the parser accepts, and `test/unit_tests/testdata_json_ast.py` for small examples); `test/unit_tests/adv_shell/testdata_builder.py` shows what generated shells look like; a Configuration is built as in `test/unit_tests/adv_shell/test_builder.py`. You have to construct your own small JSON AST document(s) by hand because the pre-generated ones are absent.

Leave your source change APPLIED in the worktree when you finish (do not commit it). Finish with a short report: the path of the three deliverables and a 3-line description of the defect.""")
