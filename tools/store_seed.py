#!/venv/bin/python
"""store_seed.py <id> <confirm line> <caught_by>...  - copy /tmp/wt-<id>/SEEDED to /verif/seeded/<id> and augment meta.json."""
import json
import os
import shutil
import sys

sid, confirm, caught = sys.argv[1], sys.argv[2], sys.argv[3:]
src, dst = f'/tmp/wt-{sid}/SEEDED', f'/verif/seeded/{sid}'
shutil.rmtree(dst, ignore_errors=True)
os.makedirs(dst)
for name in os.listdir(src):
    p = os.path.join(src, name)
    if os.path.isfile(p) and os.path.getsize(p) < 400_000 and not name.endswith(('.o', '.log', '.pyc')):
        shutil.copy(p, dst)
    elif os.path.isdir(p) and name not in ('__pycache__', 'build', 'out'):
        size = sum(os.path.getsize(os.path.join(r, f)) for r, _, fs in os.walk(p) for f in fs)
        if size < 400_000:
            shutil.copytree(p, os.path.join(dst, name), ignore=shutil.ignore_patterns('__pycache__', '*.o', '*.pyc'))
meta = json.load(open(os.path.join(dst, 'meta.json')))
meta['confirmed_by_main_session'] = confirm
meta['caught_by'] = caught
meta['how_checks_were_run'] = 'VERIF_REPO_SRC=<worktree>/src /verif/check.py <ID> --tier quick'
json.dump(meta, open(os.path.join(dst, 'meta.json'), 'w'), indent=1)
print('stored', dst, sorted(os.listdir(dst)))
