#!/bin/bash
id=$1; wt=/tmp/wt-$id; cd $wt || exit 9
log=/tmp/confirm-$id.log; : > $log
run_demo() { PYTHONPATH=$wt/src timeout 900 /venv/bin/python SEEDED/demo.py >> $log 2>&1; echo $?; }
with=$(run_demo)
git apply -R SEEDED/patch.diff >> $log 2>&1 || { echo "$id: cannot reverse patch"; exit 8; }
without=$(run_demo)
git apply SEEDED/patch.diff >> $log 2>&1 || { echo "$id: cannot re-apply patch"; exit 8; }
suite=$(cd $wt && timeout 900 /venv/bin/python -m pytest -ra -q -p no:cacheprovider --timeout=900 --continue-on-collection-errors 2>&1 | tail -1)
src=$(cd $wt && PYTHONPATH=$wt/src:$wt/test timeout 900 /venv/bin/python -m pytest -q -p no:cacheprovider test/unit_tests/adv_shell/test_port_selection.py test/unit_tests/test_scoping.py test/unit_tests/test_text_gen.py test/unit_tests/test_misc_utils.py 2>&1 | tail -1)
echo "$id: demo with=$with without=$without | suite: $suite | src-tests: $src"
