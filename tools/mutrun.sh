#!/bin/bash
# usage: mutrun.sh <name> <sed-expr> <file-rel> <check...>
name=$1; expr=$2; file=$3; shift 3
rm -rf /tmp/mut/$name; mkdir -p /tmp/mut/$name; cp -r /repo/src /tmp/mut/$name/src
sed -i "$expr" /tmp/mut/$name/src/dznpy/$file
if diff -rq /repo/src /tmp/mut/$name/src >/dev/null; then echo "MUTANT $name: NO CHANGE"; exit 9; fi
for chk in "$@"; do
  out=$(VERIF_REPO_SRC=/tmp/mut/$name/src /verif/check.py $chk --tier quick --models 16 --runs 60 2>&1)
  rc=$?
  echo "MUTANT $name check $chk rc=$rc :: $(echo "$out" | grep -E 'class=|HARNESS' | sed 's/ detail=.*//' | sort | uniq -c | tr '\n' ';' | cut -c1-400)"
done
rm -rf /tmp/mut/$name
