#!/usr/bin/env python3
"""Regenerates /verif/MANIFEST.json (kept in one place so that it stays valid)."""
import json

TECH = 'deterministic simulation with fault injection: '
CHECKS = {
    'C01': ('exploration', '§4 C01',
            'Seeded simulation of the compiled shell (real generated code, simulated dispatcher/threads): every call on an outer or inner port '
            'must pair one-to-one with a handler execution on the same (port,event) with equal unique argument tokens, reply and out/inout tokens, '
            'under stalls and several clients/peers, with ConnectPorts-tied user ports, ports re-fetched through the accessor, handlers replaced at run time, '
            'a sibling shell instance in the process, calls before FinalConstruct; sampled over generated models, configurations and schedules - evidence, not proof.',
            'seeded schedule search over the compiled shell on a baton-scheduled simulated dispatcher; history oracle = call/handler bijection on unique tokens'),
    'C02': ('exploration', '§4 C02',
            'Same simulated worlds judged for runtime semantics: MTS handlers run on the shell\'s dispatcher task, provides-in blocks until handled, '
            'requires-out never waits and survives destruction of the caller\'s argument storage (stack scrub + ASan), STS = the component\'s own port '
            'and zero dispatcher traffic; accessor enclosure type checked at compile time.',
            'seeded schedule search with argument-lifetime fault (caller frame destroyed before the dispatcher runs) under ASan; dispatcher-context monitor'),
    'C04': ('exploration', '§4 C04',
            'Sequential claim/release/other/peer histories for 1-4 clients against an executable reference model of "who holds the claim" '
            '(both readings of the statement accepted), fault-free and faulty (release by non-holder, denied claims) histories reported separately; arbitrary '
            'identifier strings, first calls before FinalConstruct, handlers replaced while the port is quiet, out-event handlers that call back into the shell, '
            'a sibling instance holding a claim of its own.',
            'seeded operation-and-fault histories on the compiled shell checked against a reference holder model'),
    'C08': ('exploration', '§4 C08',
            'The simulator owns PYTHONHASHSEED, set construction order and process identity: every case is built in child interpreters under all of them '
            '(working directory, files and symbolic links at the configured model file name, locale, HOME, TZ vary with the process) and outputs (names, contents, '
            'content hash = MD5) must be identical; a reach probe counts cases whose set iteration order really differed.',
            'simulator-controlled nondeterminism sources (hash seed x set insertion order x process) over child interpreters; byte-identity oracle'),
    'C09': ('fault_enumeration', '§4 C09',
            'Exhaustive product {pump present?}x{runtime present?}x{0,1,2 services}x{component looks the runtime up itself or not} of the user locator per model and origin (constructor must throw exactly '
            'on the stated faults), identities of dispatcher/runtime/locator contents seen by the mock component, and the executing dispatcher checked on every '
            'closure of seeded workloads.',
            'exhaustive construction-fault enumeration per model plus seeded workloads with dispatcher-identity monitor'),
    'C10': ('fault_enumeration', '§4 C10',
            'Exhaustive single-fault enumeration per model: the all-bound world and one world per event (every exposed port, every registered client of a '
            'multi-client port, the component\'s own and injected ports) left unbound; FinalConstruct must throw a binding error iff something is unbound; '
            'registration is closed afterwards (a refused registration leaves nothing behind); worlds in which the user\'s log sink re-enters the shell (registers a client of its own, or calls FinalConstruct itself in the middle of an interleaved set-up).',
            'exhaustive single-binding-fault enumeration on the compiled shell'),
    'C11': ('exploration', '§4 C11',
            'ThreadSanitizer build in which the baton is invisible, so only the program\'s own synchronisation orders accesses: 2-3 client threads in '
            'claim/use/release cycles, peers and the dispatcher under seeded schedules (uniform, sticky, PCT, round-robin, stalls, slow log sink, rogue releases, timed locks that run into their deadline, re-entrant handlers); '
            'no race report, no deadlock, bounded progress, window oracle for the claim holder; MutexWrapped exercised alone with an occupancy monitor.',
            'seeded interleaving search over baton-scheduled real threads under TSan; window oracle + kernel-side mutual-exclusion monitor'),
    'C12': ('exploration', '§4 C12',
            'In-process histories over shared parsed models, configurations and builders (valid and single-fault invalid configurations, crash-interrupted '
            'builds); after every op all pooled inputs are re-snapshotted and every result equals a fresh interpreter per (document, configuration).',
            'seeded operation histories with crash injection (settrace) against fresh-process references and deep input snapshots'),
    'C16': ('exploration', '§4 C16',
            'Histories of parser constructions, loads over a fake file system (ENOENT/EACCES/EIO/short read/file replaced), process() calls and '
            'crash-interrupted parses; every process() result equals the isolated fresh-process parse of the document the instance holds.',
            'seeded operation-and-I/O-fault histories over a simulated file system against fresh-process references'),
}

NA = {
    'C03': 'pure function of two selections and two name sets: no schedule, fault, history or nondeterminism source to simulate (exhaustive enumeration would be bounded model checking, a different technique)',
    'C05': 'parse result is a pure function of one JSON document; nothing for a scheduler or fault injector to decide',
    'C06': 'compiler acceptance of the output of a pure function; inclusion order/multiplicity is an input dimension, not a schedule (World A only notices it incidentally)',
    'C07': 'name resolution is a pure function of declarations, reference spelling and scope',
    'C13': 'totality and error typing of build() over inputs; no interleaving, crash point or history involved ("never hangs" would need only a watchdog)',
    'C14': 'find_fqn / find_any / scope_resolution_order / namespaceids_t are pure functions',
    'C15': 'error typing of the parser over malformed JSON values is input fuzzing; torn/short files are not JSON values and fall outside the statement',
    'C17': 'TextBlock flattening laws are pure functions of the content',
    'C18': 'Indentizer laws are pure functions of lines and configuration',
    'C19': 'comment rendering is a pure function; "rendering leaves the object unchanged" is a two-call unit law without schedule or fault',
    'C20': 'as_decl/as_def relation is a pure function plus compiler acceptance',
}

manifest = {
    'version': 1,
    'setup_cmd': '/venv/bin/python /verif/check.py setup',
    'hooks': {
        'guard': 'DZNPY_VERIF',
        'enable': 'no hook exists and none is needed: all seams are interfaces the code already has (Dezyne runtime API of the generated code, ILog, '
                  'module-global lookup of open(), PYTHONHASHSEED); checks import /repo/src directly and compile what it generates',
        'baseline_off_cmd': 'cd /repo && /venv/bin/python -m pytest -ra -q -p no:cacheprovider --timeout=900 --continue-on-collection-errors',
        'source_commits': [],
        'add_only': True,
    },
    'engines': [
        {'name': 'world-A', 'path': '/verif/cxx + /verif/sim/worldA.py', 'serves_properties': ['C01', 'C02', 'C04', 'C09', 'C10', 'C11'],
         'kind_free_text': 'compiled generated shell on a deterministic baton scheduler (real threads, futex hand-over invisible to TSan), mock Dezyne runtime, ASan/UBSan or TSan'},
        {'name': 'world-B', 'path': '/verif/sim/worldB.py', 'serves_properties': ['C12', 'C16'],
         'kind_free_text': 'in-process operation histories on the real Python library with fake file system, I/O faults, settrace crash injection, fresh-interpreter references'},
        {'name': 'world-C', 'path': '/verif/sim/checkC08.py', 'serves_properties': ['C08'],
         'kind_free_text': 'child interpreters with simulator-chosen PYTHONHASHSEED and permuted set construction order'},
    ],
    'checks': [],
    'notes': 'See DESIGN.md. exit 0 = held (KNOWN-FINDING lines allowed), 1 = VIOLATION line with replay file, 2 = HARNESS-ERROR. '
             'Replay: /verif/check.py <ID> --replay <file>. Self tests: /verif/check.py selftest-determinism | selftest-mutants.',
    'not_applicable': [{'property_id': k, 'reason': v} for k, v in sorted(NA.items())],
}
for pid in sorted(CHECKS):
    level, ref, text, tech = CHECKS[pid]
    manifest['checks'].append({
        'property_id': pid,
        'quick_cmd': f'/venv/bin/python /verif/check.py {pid} --tier quick',
        'thorough_cmd': f'/venv/bin/python /verif/check.py {pid} --tier thorough',
        'evidence_file': f'/verif/evidence/{pid}.json',
        'replay_cmd_template': f'/venv/bin/python /verif/check.py {pid} --replay {{path}}',
        'engine': 'world-A' if pid in ('C01', 'C02', 'C04', 'C09', 'C10', 'C11') else ('world-C' if pid == 'C08' else 'world-B'),
        'level_claimed': {'category': level, 'text': text, 'design_ref': 'DESIGN.md ' + ref},
        'level_note': 'trusted base: the mock Dezyne runtime and mock model header (World A), the harness generators and oracles, clang 14 sanitizers, CPython; '
                      'JSON ASTs are printed by the harness, not by dzn parse; sampling - a clean run is evidence, not proof',
        'technique': TECH + tech,
    })
json.dump(manifest, open('/verif/MANIFEST.json', 'w'), indent=1)
print('written', len(manifest['checks']), 'checks')
