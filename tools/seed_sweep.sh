#!/bin/bash
# Runs every quick check for a range of VERIF_SEED values against /repo and reports anything that is not exit 0.
# usage: tools_seed_sweep.sh <first> <last> [checks...]
first=${1:-1}; last=${2:-8}; shift 2
checks=${@:-C01 C02 C04 C08 C09 C10 C11 C12 C16}
tmp=$(mktemp -d /tmp/verif-sweep-XXXX)
bad=0
for seed in $(seq $first $last); do
  for c in $checks; do
    out=$(VERIF_SEED=$seed VERIF_EVIDENCE_DIR=$tmp VERIF_REPLAY_DIR=$tmp/replays VERIF_NO_CACHE=1 /venv/bin/python /verif/check.py $c --tier quick 2>&1)
    rc=$?
    if [ $rc -ne 0 ]; then bad=$((bad+1)); echo "SEED $seed $c rc=$rc"; echo "$out" | grep -E "VIOLATION|class=|HARNESS|Error" | head -8; else echo "seed $seed $c ok $(echo "$out" | tail -1 | sed 's/.*evaluations=/evaluations=/')"; fi
  done
done
echo "sweep done: $bad failures; replays (if any) in $tmp/replays"
[ $bad -eq 0 ] && rm -rf $tmp
