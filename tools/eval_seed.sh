#!/bin/bash
# usage: eval_seed.sh <seed id> <check ids...>   (checks run against the seeded worktree's sources)
id=$1; shift
for chk in "$@"; do
  tmp=$(mktemp -d /tmp/evs-XXXX)
  out=$(VERIF_REPO_SRC=/tmp/wt-$id/src VERIF_EVIDENCE_DIR=$tmp VERIF_REPLAY_DIR=$tmp timeout 3000 /verif/check.py $chk --tier quick 2>&1)
  rc=$?
  echo "SEED $id check $chk rc=$rc :: $(echo "$out" | grep -E 'class=|HARNESS' | sed 's/ detail=.*//' | sort | uniq -c | tr '\n' ';' | cut -c1-300)"
  rm -rf $tmp
done
